"""Registry: property id -> runs per tier, bounds, assumptions."""

ENV = ['env/']  # placeholder


def avl_runs(tier):
    H = 3 if tier == 'quick' else 4
    L = 4 if tier == 'quick' else 6
    covers_step = ['avl.step-insert', 'avl.step-delete', 'avl.delete-root', 'avl.delete-two-children',
                   'avl.duplicate-insert']
    return [
        {'name': 'avl_step', 'sources': ['harness/avl.c'], 'lib_tus': ['iv_avl'],
         'params': {'mode': 0, 'H': H}, 'covers': covers_step,
         'bounds': 'every AVL-balanced shape of height <= %d as pre-state, 64-bit keys unknown; one insert '
                   '(unknown key) or delete (any node)' % H},
        {'name': 'avl_hist', 'sources': ['harness/avl.c'], 'lib_tus': ['iv_avl'],
         'params': {'mode': 1, 'L': L}, 'covers': ['avl.history-complete', 'avl.duplicate-insert'],
         'bounds': 'all histories of %d mixed inserts/deletes from empty, unknown 64-bit keys' % L},
    ]


CHECKS = {
    'C16': {
        'runs': avl_runs,
        'explanation': 'C16: pre-state = any balanced shape (enumerated by forking) with solver-unknown strictly '
                       'increasing keys; the implementation\'s own comparisons fork the path; post-state checked by an '
                       'independent recursive walk whose order/duplicate oracles are solver queries.',
        'bounds': {'quick': 'shapes of height <= 3 (20 shapes), histories of length 4',
                   'thorough': 'shapes of height <= 4 (335 shapes), histories of length 6'},
        'outside': 'height-5 shapes (108 675) are beyond the forking budget; "logarithmic" is claimed only through '
                   'the balance invariant',
        'assumptions': ['comparator is a strict total order on the node keys (the harness comparator)',
                        'ivsx interpreter + z3 are correct (engines cross-checked on a sample of queries)'],
    },
}
