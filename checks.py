"""Registry: property id -> runs per tier, bounds, assumptions."""

ENVSRC = ['env/kernel.c', 'env/proc.c', 'env/pthread.c', 'env/misc.c']
METHODS = ['epoll-timerfd', 'epoll', 'ppoll', 'poll']

A_UNREG, A_SETH, A_REG, A_TIMER, A_TASK, A_QUIT, A_TRY, A_VALIDATE = 1, 2, 4, 8, 16, 32, 64, 128

ENV_ASSUMPTIONS = [
    'kernel behaviour = the C models in /verif/env (epoll/poll/timerfd/eventfd/pipe/clock/signals/fork/wait4/pthread), '
    'written from the man pages; they are executed by the same engine as the library',
    'ivsx interpreter and z3 are correct; the two solver engines are cross-checked on a sample of queries',
    'sequential consistency; allocation never fails',
]


def loop(name, covers=(), **params):
    m = params.get('method')
    return {'name': name, 'sources': ['harness/loop.c'] + ENVSRC, 'params': params, 'covers': list(covers),
            'bounds': ' '.join('%s=%s' % kv for kv in sorted(params.items()))}


def per_method(prefix, methods, covers=(), **params):
    return [loop('%s.%s' % (prefix, METHODS[m]), covers, method=m, **params) for m in methods]


# ---------------------------------------------------------------- C16
def avl_runs(tier):
    H = 4
    L = 4 if tier == 'quick' else 6
    covers_step = ['avl.step-insert', 'avl.step-delete', 'avl.delete-root', 'avl.delete-two-children',
                   'avl.duplicate-insert', 'avl.reinsert-interior-node']
    return [
        {'name': 'avl_step', 'sources': ['harness/avl.c'], 'lib_tus': ['iv_avl'],
         'params': {'mode': 0, 'H': H}, 'covers': covers_step,
         'bounds': 'every AVL-balanced shape of height <= %d as pre-state, 64-bit keys unknown; one insert '
                   '(unknown key) or delete (any node)' % H},
        {'name': 'avl_hist', 'sources': ['harness/avl.c'], 'lib_tus': ['iv_avl'],
         'params': {'mode': 1, 'L': L}, 'covers': ['avl.history-complete', 'avl.duplicate-insert'],
         'bounds': 'all histories of %d mixed inserts/deletes from empty, unknown 64-bit keys' % L},
        {'name': 'avl_scale', 'sources': ['harness/avl.c'], 'lib_tus': ['iv_avl'],
         'params': {'mode': 2, 'N': 33000}, 'covers': ['avl.height-16-reached', 'avl.scale-complete'],
         'opts': {'max_steps': 400000000},
         'bounds': 'one concrete history: 33000 ascending inserts (height 16), 24750 deletes; heights, balance, order '
                   'and traversal checked by the independent walk'},
    ]


# ---------------------------------------------------------------- loop family
def c01_runs(tier):
    q = tier == 'quick'
    ms = [0, 3] if q else [0, 1, 2, 3]
    r = []
    r += per_method('fd', ms, ['fd.in-handler-ran', 'fd.out-handler-ran'], K=2, R=2, acts=A_UNREG | A_REG, A=2,
                    L=2 if q else 3, symtruth=0, wr=1, patterns=2, order=1)
    r += per_method('fd.err-only', [0, 1] if q else [0, 1, 2, 3], ['fd.err-handler-ran'], K=1, R=3 if q else 4,
                    acts=A_UNREG | A_SETH | A_REG, A=2, L=2 if q else 3, symtruth=2, patterns=5)
    r += per_method('timer', [0] if q else [0, 3], ['timer.handler-ran'], K=0, T=3, R=2, acts=A_TIMER, A=2,
                    L=2 if q else 3, symtruth=0, symtime=4)
    r += per_method('task', [1] if q else [1, 2], ['task.handler-ran'], K=0, J=3, R=2, acts=A_TASK, A=2,
                    L=2 if q else 3, symtruth=0)
    # the other object kinds: their own harnesses with unregister+free from inside handlers
    r.append(mt_run('event', 'harness/event.c', ['event.unregister-self-in-handler',
                                                 'event.unregister-sibling-in-handler'],
                    preempt=0, E=3, P=0, Q=0, method=1, owner=2, ops=3, selfpost=1))
    r.append(mt_run('event+fd.same-batch', 'harness/event.c',
                    ['event.handler-unregisters-fd-of-same-batch', 'event.fd-in-same-batch-handled'],
                    preempt=2, E=1, P=1, Q=1, method=0, withfd=2))
    r.append(mt_run('event+fd.same-batch.poll', 'harness/event.c',
                    ['event.handler-unregisters-fd-of-same-batch'], preempt=1, E=1, P=1, Q=1, method=3, withfd=2))
    r.append(mt_run('raw-event', 'harness/eventraw.c', ['raw.unregister-in-handler'], preempt=1, R=2, T=0, N=0,
                    unreg=1, ownerpost=1, cfg=0 if q else 2))
    r.append(mt_run('signal', 'harness/signal.c', ['signal.unregister-self-in-handler'], preempt=1, I=2, T=1, D=2,
                    ops=2))
    r.append(mt_run('wait', 'harness/wait.c', ['wait.unregister-in-handler'], preempt=1, C=2, strangers=0, events=3,
                    ops=2))
    r.append({'name': 'inotify', 'sources': ['harness/inotify.c'] + ENVSRC,
              'params': {'scenario': 1, 'W': 2, 'M': 2},
              'covers': ['inotify.unregister-self-in-handler', 'inotify.unregister-other-in-handler',
                         'inotify.unregister-instance-in-handler'], 'bounds': 'W=2 M=2'})
    return r


def c02_runs(tier):
    q = tier == 'quick'
    r = per_method('handlers', [0, 1, 2, 3], ['fd.in-handler-ran', 'fd.out-handler-ran', 'loop.sleeps-with-nothing-ready'],
                   K=2, R=2, acts=A_UNREG | A_SETH, A=1, L=1 if q else 2, symtruth=1, patterns=3)
    # two operations in a row on a set of several descriptors (slot bookkeeping of the poll methods,
    # pending-notification list of the epoll methods), readiness concrete
    r += per_method('two-ops', [0, 2, 3] if q else [0, 1, 2, 3], ['fd.in-handler-ran'], K=3, R=2,
                    acts=A_UNREG | A_SETH, A=2, L=2, symtruth=0, wr=1, patterns=2)
    r += per_method('level', [0, 3] if q else [0, 1, 2, 3], ['fd.in-handler-ran', 'fd.err-handler-ran'],
                    K=1, R=3, acts=A_SETH, A=1, L=2, symtruth=2, persist=1, patterns=3)
    r += try_then_register(tier)
    return r


def try_then_register(tier):
    # a failed iv_fd_register_try, then the same struct (no IV_FD_INIT) is registered for good
    return per_method('try-fails-then-register', [0, 3] if tier == 'quick' else [0, 1, 2, 3],
                      ['fd.struct-kept-after-failed-try', 'fd.struct-reused-without-init', 'fd.in-handler-ran'],
                      K=2, R=2, acts=A_REG | A_TRY, A=2, L=2, symtruth=1, patterns=2, faults=1, lastunreg=1)


def c03_runs(tier):
    q = tier == 'quick'
    cv = ['fd.in-handler-ran', 'fd.out-handler-ran', 'fd.struct-reused-without-init']
    # unregister + re-register (fresh struct or the same struct without IV_FD_INIT) needs two operations
    r = per_method('reuse', [0, 3] if q else [0, 1, 2, 3], cv, K=2, R=2, acts=A_UNREG | A_REG, A=2, L=2,
                   symtruth=1 if q else 2, patterns=2)
    r += per_method('reuse.huperr', [1, 2] if q else [0, 1, 2, 3], cv + ['fd.err-handler-ran'], K=1, R=3,
                    acts=A_UNREG | A_REG, A=2, L=2 if q else 3, symtruth=2, patterns=5)
    # a registration attempt that fails (descriptor number closed at that moment, reused afterwards)
    r += per_method('try-fails', [1, 2, 3] if q else [0, 1, 2, 3], ['C07.register_try-fails', 'fd.in-handler-ran'],
                    K=2, R=2, acts=A_UNREG | A_TRY, A=2, L=2, symtruth=1, patterns=2, faults=1)
    r += try_then_register(tier)
    # an event handler replaces a connection whose readiness was collected in the same poll: same struct, new
    # descriptor on which nothing ever arrives
    for m, nm in ((0, 'epoll-timerfd'), (1, 'epoll'), (3, 'poll')):
        r.append(mt_run('event-handler-reuses-fd-struct.' + nm, 'harness/event.c',
                        ['event.handler-reuses-fd-struct-of-same-batch', 'event.fd-in-same-batch-handled'],
                        preempt=2, E=1, P=1, Q=1, method=m, withfd=3))
    return r


def timerfd_task(tier):
    # timers x descriptors x tasks: the timeout has moved into the timer descriptor (>= 5 sleeps on the same
    # earliest timer), then a task is registered and keeps the loop on zero-timeout polls while time passes
    return per_method('timerfd+task', [0], ['C04.timerfd-armed', 'task.handler-ran', 'timer.handler-ran'], K=1, T=2,
                      J=1, R=9, acts=A_TASK, A=1, L=2, symtruth=0, symtime=2, patterns=1, jreg=0) + \
        per_method('timerfd+unreg', [0], ['C04.timerfd-armed', 'timer.handler-ran'], K=1, T=1, R=8, acts=A_TIMER,
                   A=1, L=2, symtruth=0, symtime=2, patterns=1)


def c04_runs(tier):
    q = tier == 'quick'
    r = []
    # the timerfd optimisation needs >= 7 iterations with an unchanged earliest expiry; the
    # millisecond-granular methods fork more per iteration (rounding) and get fewer iterations
    for m, R in ((0, 7 if q else 9), (1, 5 if q else 7), (2, 5 if q else 7), (3, 4 if q else 5)):
        r += per_method('subsec', [m], ['timer.handler-ran'], K=1, T=2, R=R, acts=A_TIMER, A=1,
                        L=1, symtruth=0, symtime=2, patterns=1)
    r[0]['covers'] += ['C04.timerfd-armed', 'C04.unbounded-wait-relies-on-timerfd']
    if not q:
        # two timer operations, fewer iterations
        for m, R in ((0, 7), (1, 5), (2, 5), (3, 4)):
            r += per_method('subsec.two-ops', [m], ['timer.handler-ran'], K=1, T=2, R=R, acts=A_TIMER, A=1,
                            L=2, symtruth=0, symtime=2, patterns=1)
    r += per_method('fullpair', [0, 2] if q else [0, 1, 2, 3], ['timer.handler-ran'], K=0, T=2, R=2, acts=A_TIMER,
                    A=1, L=1, symtruth=0, symtime=1)
    # interrupted waits: part of the timeout has elapsed when EINTR comes back
    r += per_method('eintr', [0, 1, 2, 3], ['timer.handler-ran', 'env.eintr-injected'], K=1, T=1, R=4,
                    acts=0, A=0, L=0, symtruth=0, symtime=2, patterns=1, faults=2, eintr=2)
    # the earliest expiry the loop sleeps on is the root of the timer store: its order invariant
    for N in (7, 8):
        r.append(timers_run('store.step.N%d' % N, covers=['C05.step-unregister'], mode=1, N=N, sym=3))
    r += timerfd_task(tier)
    # the public clock: handlers read iv_now and call iv_invalidate_now between timer operations; inside a timer
    # handler iv_now is at or past the expiry, it never runs backwards and is never ahead of the kernel clock
    r += per_method('iv_now', [0] if q else [0, 1, 2, 3], ['timer.handler-ran', 'C04.iv_now-read'], K=1, T=2,
                    R=3, acts=A_TIMER | A_VALIDATE, A=2, L=2, symtruth=0, symtime=2, patterns=1)
    return r


def c06_runs(tier):
    q = tier == 'quick'
    # a loop with tasks and a timer only (no descriptor registered at all)
    nofd = per_method('tasks.no-fd', [0, 1, 3] if q else [0, 1, 2, 3],
                      ['task.handler-ran', 'C06.deferred-reregistration-observed', 'timer.handler-ran'],
                      K=0, T=1, J=2, R=3, acts=A_TASK, A=2, L=3, symtruth=0)
    # a task that re-registers itself round after round: the zero timeout repeats often enough for the
    # repeated-deadline optimisation to engage on it
    nofd += per_method('task-chain', [0] if q else [0, 1], ['task.handler-ran', 'C06.deferred-reregistration-observed'],
                       K=0, T=0, J=1, R=9, acts=A_TASK, A=1, L=9, symtruth=0)
    # the same chain while the kernel clock moves on (0.4 s per iteration) past the expiry of a registered timer:
    # the tasks do not keep the timer from being serviced
    nofd += per_method('task-chain+timer', [0, 1] if q else [0, 1, 2, 3],
                       ['task.handler-ran', 'timer.handler-ran', 'C06.deferred-reregistration-observed'],
                       K=0, T=2, J=1, R=9, acts=A_TASK, A=1, L=9, symtruth=0, tick=400000000)
    nofd += per_method('tasks.any-epoch', [1], ['task.handler-ran', 'C06.deferred-reregistration-observed'],
                       K=0, T=1, J=2, R=3, acts=A_TASK, A=2, L=3, symtruth=0, symepoch=1)
    return nofd + per_method('tasks', [0, 2] if q else [0, 1, 2, 3],
                      ['task.handler-ran', 'C06.deferred-reregistration-observed', 'timer.handler-ran',
                       'fd.in-handler-ran'],
                      K=1, T=1, J=2 if q else 3, R=3, acts=A_TASK, A=2, L=3 if q else 4, symtruth=0, patterns=1) + \
        timerfd_task(tier)[:1]


def c07_runs(tier):
    q = tier == 'quick'
    # descriptors with an error handler only (no bit in the epoll event mask), hang-ups and errors unknown
    erronly = per_method('fd.err-only', [0, 1], ['fd.err-handler-ran'], K=1, R=3 if q else 4,
                         acts=A_UNREG | A_SETH | A_REG, A=2, L=2 if q else 3, symtruth=2, patterns=5)
    return erronly + per_method('mix', [0, 3] if q else [0, 1, 2, 3],
                      ['C07.returned-by-quit', 'C07.returned-when-empty', 'C07.register_try-fails'],
                      K=1, T=1, J=1, R=3, acts=A_UNREG | A_REG | A_TIMER | A_TASK | A_QUIT | A_TRY, A=1,
                      L=2 if q else 3, symtruth=0, patterns=2, faults=1, setup_actions=1) + [
        mt_run('event-register-fails.poll', 'harness/event.c',
               ['C07.event-register-fails', 'C07.loop-returns-after-failed-registration'], preempt=0, regfail=1,
               method=3, P=0),
        mt_run('event-register-fails.ppoll', 'harness/event.c',
               ['C07.event-register-fails', 'C07.loop-returns-after-failed-registration'], preempt=0, regfail=1,
               method=2, P=0)] + per_method('timerfd-cycle', [0], ['C04.timerfd-armed', 'timer.handler-ran'], K=1, T=2,
                                             R=8, acts=A_TIMER, A=1, L=1, symtruth=0, symtime=2, patterns=1) + \
        timerfd_task(tier)


def timers_run(name, defs=(), covers=(), **params):
    return {'name': name, 'sources': ['harness/timers.c'] + ENVSRC, 'params': params, 'covers': list(covers),
            'defs': list(defs), 'min_tasks': 32, 'max_split': 6,
            'bounds': ' '.join('%s=%s' % kv for kv in sorted(params.items())) + (' ' + ' '.join(defs) if defs else '')}


def c05_runs(tier):
    q = tier == 'quick'
    two = ['-DIVYKIS_VERIF_TIMER_SPLIT_BITS=2']
    r = [timers_run('hist.sec', covers=['C05.history-fired-in-order', 'C05.history-unregister'], mode=0,
                    L=5 if q else 6, sym=3),
         timers_run('hist.pair', covers=['C05.history-fired-in-order'], mode=0, L=4 if q else 5, sym=1)]
    for N in ([0, 1, 2, 3, 5, 8, 13] if q else list(range(0, 32))):
        r.append(timers_run('step.N%d' % N, covers=['C05.step-register'], mode=1, N=N, sym=3))
    if not q:
        for N in range(0, 11):
            r.append(timers_run('step.pair.N%d' % N, covers=['C05.step-register'], mode=1, N=N, sym=1))
    # two-bit split: levels hold 4, 16, 64 entries
    for N in ([3, 4, 5, 15, 16, 17] if q else list(range(0, 26)) + [63, 64, 65]):
        r.append(timers_run('step2bit.N%d' % N, two, covers=['C05.step-register'], mode=1, N=N, sym=3))
    for N in ([127, 128, 16383, 16384] if q else [127, 128, 129, 16383, 16384, 16385]):
        x = timers_run('boundary.N%d' % N, covers=['C05.boundary-register', 'C05.boundary-unregister'], mode=2, N=N)
        x['min_tasks'] = 8
        x['max_split'] = 3
        r.append(x)
    r[-1]['covers'] = r[-1]['covers'] + ['C05.radix-level-removed']
    # arbitrary expiry values: keys up to 2^40 seconds (sentinel "never" timers, differences beyond 2^63 ns)
    for N in ([3, 7] if q else [3, 7, 12]):
        r.append(timers_run('step.farkeys.N%d' % N, covers=['C05.step-register', 'C05.step-unregister'], mode=1, N=N,
                            sym=3, farkeys=1))
    r.append(timers_run('hist.farkeys', covers=['C05.history-fired-in-order'], mode=0, L=4 if q else 5, sym=3, farkeys=1))
    # timers registered/unregistered from descriptor handlers while the loop's kernel-timer
    # optimisation is engaged (independence of timers from each other through the main loop)
    r += per_method('loop.timerfd-cycle', [0], ['C04.timerfd-armed', 'timer.handler-ran'], K=1, T=2, R=8,
                    acts=A_TIMER, A=1, L=1, symtruth=0, symtime=2, patterns=1)
    return r


def pump_run(name, bufsz, covers=(), **params):
    return {'name': name, 'sources': ['harness/pump.c'] + ENVSRC, 'params': params, 'covers': list(covers),
            'defs': ['-DIVYKIS_VERIF_PUMP_BUF_SIZE=%d' % bufsz],
            'bounds': 'BUF_SIZE=%d ' % bufsz + ' '.join('%s=%s' % kv for kv in sorted(params.items()))}


def c17_runs(tier):
    q = tier == 'quick'
    cv = ['pump.done', 'pump.buffer-full', 'pump.partial-read', 'pump.partial-write', 'pump.input-would-block',
          'pump.output-would-block', 'pump.input-error', 'pump.output-error', 'pump.output-returns-zero',
          'pump.input-eintr', 'pump.output-eintr', 'pump.complete-run']
    N, B = (4, 4) if q else (5, 6)
    noeintr = [c for c in cv if 'eintr' not in c]
    r = [pump_run('rw.relay', 4, cv, N=N, B=B, splice=0, relay=1),
         pump_run('rw.norelay', 4, noeintr, N=N, B=B, splice=0, relay=0, eintr=0),
         pump_run('splice.relay', 4, cv + ['pump.splice-pipe-full'], N=N, B=B, splice=1, relay=1, pipecap=3),
         pump_run('splice.nopipe2', 4, [c for c in noeintr if c != 'pump.buffer-full'], N=N, B=B - 1, splice=1,
                  relay=0, pipecap=4, nopipe2=1, eintr=0)]
    if q:
        # a stream longer than the copy buffer (the thorough tier has B=6 in every run)
        r.append(pump_run('rw.stream-longer-than-buffer', 4, ['pump.done', 'pump.buffer-full', 'pump.output-would-block'],
                          N=4, B=6, splice=0, relay=1, eintr=0, err=0))
    # two pumps one after the other on the same thread (buffer cache): after errors with data buffered
    r.append(pump_run('splice.two-pumps', 4, ['pump.second-pump-on-same-thread', 'pump.done', 'pump.output-error'],
                      N=3, B=3, splice=1, relay=1, pipecap=3, pumps=2, eintr=0, eagain=1))
    # the splice buffer (a pipe) can hold more than the read/write buffer size
    r.append(pump_run('splice.two-pumps.deep-pipe', 2, ['pump.second-pump-on-same-thread', 'pump.done',
                                                        'pump.output-error'],
                      N=2, B=3, splice=1, relay=1, pipecap=3, pumps=2, eintr=0, eagain=1, err=1))
    r.append(pump_run('rw.two-pumps', 4, ['pump.second-pump-on-same-thread', 'pump.done'],
                      N=3, B=3, splice=0, relay=0, pumps=2, eintr=0, eagain=1))
    if not q:
        r.append(pump_run('rw.buf8', 8, ['pump.done', 'pump.buffer-full', 'pump.partial-read'], N=4, B=9, splice=0,
                          relay=1, eintr=0, err=0))
        r.append(pump_run('rw.shipped-4096', 4096, ['pump.done'], N=4, B=5, splice=0, relay=1, eintr=0))
    return r


def c20_runs(tier):
    q = tier == 'quick'
    cv = ['inotify.delivered', 'inotify.dropped-before-handler', 'inotify.record-with-name', 'inotify.record-with-longest-name',
          'inotify.unregister-self-in-handler', 'inotify.unregister-other-in-handler',
          'inotify.unregister-instance-in-handler', 'inotify.complete-run']
    src = ['harness/inotify.c'] + ENVSRC

    def run(name, covers, **params):
        return {'name': name, 'sources': src, 'params': params, 'covers': covers,
                'bounds': ' '.join('%s=%s' % kv for kv in sorted(params.items()))}
    r = [run('never-used', ['inotify.unregister-without-events'], scenario=0),
         run('buffer.epoll', cv, scenario=1, W=2 if q else 3, M=2 if q else 3, poll=0),
         run('buffer.poll', cv, scenario=1, W=2, M=2 if q else 3, poll=1)]
    if q:
        r.append(run('buffer.W3M3.noinst', cv[:5], scenario=1, W=3, M=3, acts=1))
    # scale: one read that fills the library's 64 KiB buffer to the last byte (4096 name-less events)
    r.append(run('full-buffer', ['inotify.read-fills-the-whole-buffer', 'inotify.delivered', 'inotify.complete-run'],
                 scenario=1, W=2, M=2, acts=0, fullbuf=1))
    r[-1]['opts'] = {'max_steps': 60000000}
    return r


RACE_WHITELIST = ['inited', 'epoll_support', 'epoll_pwait2_support', 'eventfd_in_use', 'eventfd_in_use.46',
                  'pipe2_support', 'splice_available', 'iv_event_use_event_raw', 'method', 'clock_source',
                  'iv_state_key_allocated']


def mt_run(name, harness, covers=(), preempt=2, **params):
    params = dict(params)
    params['preempt'] = preempt
    return {'name': name, 'sources': [harness] + ENVSRC, 'params': params, 'covers': list(covers),
            'opts': {'max_preempt': preempt, 'race_whitelist': RACE_WHITELIST},
            'bounds': 'preemption bound %d; ' % preempt + ' '.join('%s=%s' % kv for kv in sorted(params.items()))}


def c08_runs(tier, hb=0):
    q = tier == 'quick'
    cv = ['event.handler-ran', 'event.quiescent', 'event.cross-thread-post-delivered']
    r = []
    for m, nm in ((1, 'epoll-kick'), (3, 'rawevent-poll'), (0, 'epoll-timerfd-kick')):
        r.append(mt_run('posters.' + nm, 'harness/event.c', cv, preempt=3 if q else 4, E=2, P=2, Q=1 if q else 2,
                        method=m, hb=hb))
    r.append(mt_run('three-posters', 'harness/event.c', cv, preempt=2 if q else 3, E=2, P=3, Q=1, method=1, hb=hb))
    r.append(mt_run('owner-activity.epoll', 'harness/event.c',
                    cv + ['event.owner-posts-from-handler', 'event.owner-registers-extra',
                          'event.owner-unregisters-extra'],
                    preempt=3, E=2, P=1, Q=2, method=1, owner=1, ops=2 if q else 3, hb=hb))
    r.append(mt_run('owner-activity.raw', 'harness/event.c', cv + ['event.owner-posts-from-handler'],
                    preempt=3, E=2, P=1, Q=2, method=2, owner=1, ops=2, selfpost=1, hb=hb))
    r.append(mt_run('pipe-transport', 'harness/event.c', cv, preempt=3, E=2, P=2, Q=1, method=3, noeventfd=1, hb=hb))
    # descriptors of the owner registered before its first event come and go (poll-table bookkeeping)
    for m, nm in ((2, 'ppoll'), (3, 'poll'), (1, 'epoll')):
        r.append(mt_run('owner-fds-come-and-go.' + nm, 'harness/event.c', cv + ['event.owner-unregisters-a-descriptor'],
                        preempt=1 if q else 2, E=1, P=1, Q=1, method=m, twofds=1, hb=hb))
    # the owner's very first event registration fails (no descriptor available), later ones succeed
    # (raw-event transport only: with the epoll transport the library treats descriptor exhaustion as fatal)
    for m, nm in ((2, 'ppoll'), (3, 'poll')):
        r.append(mt_run('first-registration-fails.' + nm, 'harness/event.c', cv + ['C07.event-register-fails'],
                        preempt=1 if q else 2, E=1, P=1, Q=1, method=m, regfail=2, hb=hb))
    # scale: many events of one owner pending at once (one dispatch pass has to serve them all)
    for m, nm in ((1, 'epoll'), (3, 'poll')):
        r.append(mt_run('many-events-pending.' + nm, 'harness/event.c', ['event.handler-ran', 'event.quiescent'],
                        preempt=0, E=36, P=0, Q=0, method=m, selfpost=2, hb=hb))
    # the owner posts and unregisters a still-pending event before its loop runs; a poster posts behind it
    for m, nm in ((1, 'epoll'), (2, 'raw')):
        r.append(mt_run('owner-pre-ops.' + nm, 'harness/event.c', cv + ['event.unregister-while-pending'],
                        preempt=1 if q else 2, E=2, P=1, Q=1, method=m, preops=3, hb=hb))
    return r


def c09_runs(tier, hb=0):
    q = tier == 'quick'
    cv = ['raw.handler-ran', 'raw.quiescent', 'raw.posts-coalesced']
    r = []
    for cfg, nm in ((0, 'eventfd2'), (1, 'old-eventfd'), (2, 'pipe')):
        r.append(mt_run('threads.' + nm, 'harness/eventraw.c',
                        cv + ['raw.post-while-handler-runs'] + (['env.pipe-full', 'raw.pipe-fallback'] if cfg == 2 else []),
                        preempt=3, R=1, T=2, N=3 if q else 5, cfg=cfg, hposts=1, pipecap=2 if q else 3, hb=hb))
        r.append(mt_run('signal.' + nm, 'harness/eventraw.c',
                        ['raw.handler-ran', 'raw.quiescent', 'raw.posted-from-signal-handler',
                         'env.signal-delivered-at-syscall-boundary'],
                        preempt=3, R=1, T=1, N=1, S=2, cfg=cfg, ownerpost=1, hb=hb))
    r.append(mt_run('two-events.poll', 'harness/eventraw.c', cv, preempt=3, R=2, T=2, N=2, cfg=0, method=3, hb=hb))
    r.append(mt_run('registered-again', 'harness/eventraw.c',
                    ['raw.reregistered', 'raw.reregistered-after-eventfd-disappeared', 'raw.handler-ran', 'env.pipe-full'],
                    preempt=2, R=1, T=1, N=3, cfg=0, rereg=1, pipecap=2, hposts=1, hb=hb))
    # bursts of any size against the real buffer sizes of the code: the number of bytes pending in a
    # 64 KiB pipe (and in a pipe exactly as large as the handler's read buffer) is a solver unknown
    r.append(mt_run('burst.unknown-size.pipe64k', 'harness/eventraw.c', ['raw.symbolic-burst', 'raw.handler-ran'],
                    preempt=0, R=1, T=1, N=1, cfg=2, pipecap=65536, symburst=1, hb=hb))
    r.append(mt_run('burst.unknown-size.pipe1k', 'harness/eventraw.c', ['raw.symbolic-burst', 'raw.handler-ran'],
                    preempt=0, R=1, T=1, N=1, cfg=2, pipecap=1024, symburst=1, hb=hb))
    return r


def c10_runs(tier, hb=0):
    q = tier == 'quick'
    cv = ['signal.handler-ran', 'signal.quiescent', 'signal.exclusive-woken', 'signal.fan-out-to-several',
          'signal.this-thread-interest-preferred', 'signal.unregister-self-in-handler']
    h = 'harness/signal.c'
    r = [mt_run('one-thread.I2', h, cv, preempt=2 if q else 3, I=2, T=1, D=2, hb=hb),
         mt_run('one-thread.I2.rev.poll', h, cv, preempt=2, I=2, T=1, D=2, rev=1, poll=1, hb=hb),
         mt_run('one-thread.I3', h, cv, preempt=1 if q else 2, I=3, T=1, D=2, ops=2, hb=hb),
         mt_run('two-threads', h, cv + ['signal.loop-returned-after-last-unregister'], preempt=2, I=2, T=2,
                D=2 if q else 3, hb=hb),
         mt_run('handoff', h, ['signal.exclusive-handoff', 'signal.handler-ran'], preempt=1 if q else 2, I=3, T=1, D=2,
                ops=1, twosigs=1, nflags=2, order=1, hb=hb),
         # two signal numbers, the second one arriving while the loop thread is inside the library's own
         # processing of the first (also while it holds the interest lock: delivery point after lock acquisition)
         mt_run('two-signals.second-arrives-during-first', h, ['signal.handler-ran', 'signal.quiescent'],
                preempt=2 if q else 3, I=2, T=1, D=2, twosigs=1, nflags=1 if q else 2, unreg=0, ops=0, hb=hb),
         mt_run('fork-child', h, ['signal.child-does-not-trigger-parent', 'env.fork-child-copy-explored',
                                     'signal.child-registers-own-interest'], preempt=1,
                I=2, T=1, D=1, forkchild=1, hb=hb),
         mt_run('fork-child.poll', h, ['signal.child-does-not-trigger-parent', 'signal.child-registers-own-interest'],
                preempt=0, I=2, T=1, D=1, forkchild=1, poll=1, nflags=4, hb=hb),
         # population: seven shared interests registered in every order, one delivery reaches all of them
         mt_run('seven-interests.all-orders', h, ['signal.registration-order-permuted', 'signal.fan-out-to-several',
                                                  'signal.quiescent'],
                preempt=0, I=7, T=1, D=1, nflags=1, unreg=0, permute=1, hb=hb),
         # four shared interests split over two signals in every way, registered in every order
         mt_run('two-signals.all-splits-and-orders', h, ['signal.registration-order-permuted', 'signal.quiescent',
                                                         'signal.fan-out-to-several'],
                preempt=0, I=4, T=1, D=1, nflags=2, unreg=0, permute=1, twosigs=2, hb=hb),
         mt_run('concurrent-forks', h, ['signal.concurrent-forks', 'signal.handler-ran', 'signal.quiescent'],
                preempt=2, I=1, T=1, D=1, forkers=1, nflags=1, unreg=0, hb=hb)]
    if not q:
        r.append(mt_run('two-threads.I3', h, cv, preempt=2, I=3, T=2, D=2, hb=hb))
    return r


def c11_runs(tier, hb=0):
    q = tier == 'quick'
    h = 'harness/wait.c'
    cv = ['wait.termination-delivered', 'wait.exit-code-delivered', 'wait.stop-or-continue-delivered',
          'wait.stranger-reaped', 'wait.quiescent', 'wait.unregister-in-handler']
    r = [mt_run('strangers', h, cv, preempt=1 if q else 2, C=3, strangers=1, events=3 if q else 4, ops=2, hb=hb),
         mt_run('stranger-is-oldest', h, cv, preempt=1 if q else 2, C=3, strangers=1, events=3, ops=1, strangerfirst=1,
                hb=hb),
         mt_run('spawn+kill', h, cv + ['wait.spawn-child-ran', 'wait.kill-forwarded', 'env.fork-child-copy-explored'],
                preempt=2, C=2, strangers=1, events=3, spawn=1, kill=1, ops=2, hb=hb),
         mt_run('kill.poll', h, ['wait.termination-delivered', 'wait.kill-forwarded', 'wait.quiescent'],
                preempt=1 if q else 2, C=2, strangers=0, events=4 if q else 5, kill=1, ops=2, poll=1, hb=hb),
         mt_run('two-loops.spawn-exits-at-once', h,
                ['wait.two-loop-threads', 'wait.spawned-child-exits-at-once', 'wait.termination-delivered'],
                preempt=2, C=1, strangers=0, events=0 if q else 1, twoloops=1, unreg=0, hb=hb),
         mt_run('two-loops.reaper-elsewhere', h,
                ['wait.reaper-is-another-thread', 'wait.termination-delivered', 'wait.unregister-other-in-handler',
                 'wait.batch-of-several-statuses'],
                preempt=1, C=3, strangers=0, events=2 if q else 3, twoloops=2, ops=1, hb=hb),
         # the same, with every state change arriving only after the previous one was collected: the reaper
         # is still inside its collection loop when the next one arrives and the owner is already reacting
         mt_run('two-loops.reaper-elsewhere.paced', h,
                ['wait.reaper-is-another-thread', 'wait.termination-delivered', 'wait.batch-of-several-statuses'],
                preempt=1, C=3, strangers=0, events=2, twoloops=2, ops=1, worldwait=1, hb=hb),
         # the owner unregisters an interest (an interior node of the shared tree) on its own while the
         # reaper thread may be collecting that very child
         mt_run('two-loops.spontaneous-unregister', h,
                ['wait.reaper-is-another-thread', 'wait.spontaneous-unregister', 'wait.termination-delivered'],
                preempt=1 if q else 2, C=3, strangers=0, events=2, twoloops=2, ops=0, unreg=0, spont=1, hb=hb),
         # the owner signals a child through its interest on its own while the reaper thread may be collecting it:
         # no signal to a pid already reaped, and the status test is synchronised with the reaper
         mt_run('two-loops.spontaneous-kill', h,
                ['wait.reaper-is-another-thread', 'wait.spontaneous-kill', 'wait.termination-delivered'],
                preempt=1 if q else 2, C=3, strangers=0, events=2, twoloops=2, ops=0, unreg=0, spont=1, spontkill=1,
                hb=hb)]
    if not q:
        r.append(mt_run('two-loops.reaper-elsewhere.p2', h, ['wait.batch-of-several-statuses'], preempt=2, C=3,
                        strangers=0, events=2, twoloops=2, ops=1, hb=hb))
    return r


def c19_runs(tier):
    h = 'harness/popen.c'
    cv = ['popen.child-reached-exec', 'popen.child-exits-at-once', 'popen.child-dies-from-signal',
          'popen.escalated-to-sigkill', 'popen.child-exits-between-signals', 'popen.complete-run',
          'env.fork-child-copy-explored', 'popen.time-passes-after-reaping', 'popen.child-continued']
    r = [mt_run('type-r.epoll', h, cv, preempt=0, read=1), mt_run('type-w.epoll', h, cv, preempt=0, read=0),
         mt_run('type-r.poll', h, cv, preempt=0, read=1, poll=1)]
    if tier != 'quick':
        r.append(mt_run('type-w.poll', h, cv, preempt=0, read=0, poll=1))
    # the process has another loop thread that does the reaping (its SIGCHLD interest is the one woken)
    r.append(mt_run('reaper-elsewhere', h, ['popen.reaper-is-another-thread', 'popen.child-exits-at-once',
                                            'popen.child-dies-from-signal', 'popen.complete-run'],
                    preempt=1 if tier == 'quick' else 2, read=1, watcher=1))
    return r


def work_runs(tier, hb=0):
    q = tier == 'quick'
    h = 'harness/work.c'
    base = ['work.thread-started', 'work.thread-stopped']
    p2 = 2 if q else 3
    return [
        mt_run('burst.max1.put-after', h, base + ['work.pool-released', 'work.loop-returned-and-everything-released'],
               preempt=p2, W=2, max=1, put=1, hb=hb),
        mt_run('burst.max2.put-after', h, base + ['work.two-items-in-parallel', 'work.pool-released'],
               preempt=2, W=2 if q else 3, max=2, put=1, hb=hb),
        mt_run('chain.put-in-completion', h, base + ['work.submitted-from-completion', 'work.pool-released'],
               preempt=p2, W=2 if q else 3, max=1, put=2, chain=1, burst=1, hb=hb),
        mt_run('idle-timeout.late-submit', h, base + ['work.submitted-after-idle-timeout', 'work.quiescent',
                                                      'env.wait-timed-out'],
               preempt=p2, W=2, max=1, put=0, late=1, burst=1, hb=hb),
        mt_run('idle-timeout.coincides-with-submit', h, base + ['sched:simultaneous-timeouts', 'work.quiescent'],
               preempt=p2, W=2, max=1, put=0, late=1, lateat=11, burst=1, hb=hb),
        mt_run('idle-timeout.coincides-with-put', h, base + ['sched:simultaneous-timeouts', 'work.pool-released',
                                                             'work.loop-returned-and-everything-released'],
               preempt=p2, W=1, max=1, put=3, lateat=11, burst=1, hb=hb),
        mt_run('continuation.put-late', h, base + ['work.continuation-from-worker', 'work.pool-released',
                                                   'work.two-items-in-parallel'],
               preempt=1 if q else 2, W=3, max=2, put=3, cont=1, burst=2, hb=hb),
        mt_run('continuation.owner-busy', h, base + ['work.continuation-from-worker', 'work.two-items-in-parallel'],
               preempt=3, W=3, max=2, put=3, cont=1, burst=2, gap=1, hb=hb),
        # every work function submits the next item as a continuation: the only worker leaves its event handler
        # with work queued round after round (its zero poll timeout repeats)
        mt_run('continuation.chain', h, base + ['work.continuation-from-worker', 'work.pool-released'],
               preempt=1 if q else 2, W=8, max=1, put=3, cont=2, burst=1, tfd=1, hb=hb),
        # scale: dozens of completions queued for the owner at one wake-up (the worker finishes the whole burst
        # while the owner sleeps)
        mt_run('burst40.max1', h, ['work.pool-released', 'work.loop-returned-and-everything-released'],
               preempt=0, W=40, max=1, put=1, wblock=0, hb=hb),
        mt_run('saturated.max1', h, base + ['work.quiescent'], preempt=p2, W=3, max=1, put=0, hb=hb),
        mt_run('null-pool', h, ['work.loop-returned-and-everything-released'], preempt=0, W=2, nullpool=1, hb=hb),
        mt_run('iv_thread', h, ['thread.joined-and-released'], preempt=2 if q else 3, threadtest=1, hb=hb),
        mt_run('iv_thread.create-fails', h, ['thread.create-failure-survived', 'env.pthread_create-fails'],
               preempt=1 if q else 2, threadtest=2, hb=hb),
    ]


def c12_runs(tier):
    return work_runs(tier)


def c13_runs(tier):
    return [x for x in work_runs(tier) if x['name'] not in ('null-pool', 'saturated.max1')]


def c15_runs(tier):
    q = tier == 'quick'
    r = []
    fdcov = ['fd.in-handler-ran', 'env.eintr-injected']
    # (b) EINTR at any wait, crossed with the four methods
    for m in range(4):
        r += per_method('eintr.fd', [m], fdcov, K=1 if q else 2, R=2, acts=A_UNREG | A_SETH, A=1, L=1, symtruth=1,
                        patterns=2, faults=2, eintr=1 if q else 2)
    r += per_method('eintr.timers', [0, 1, 2, 3], ['timer.handler-ran', 'env.eintr-injected'],
                    K=1, T=1, R=4, acts=A_TIMER, A=1, L=1, symtruth=0, symtime=2, patterns=1, faults=2, eintr=1)
    r += per_method('eintr.tasks', [1], ['task.handler-ran', 'env.eintr-injected'], K=1, T=0, J=2, R=3, acts=A_TASK,
                    A=1, L=2, symtruth=0, patterns=1, faults=2, eintr=1)
    # (c) optional calls missing from the first call, disappearing later, or forbidden
    r += per_method('pwait2-missing.fd', [0, 1], ['fd.in-handler-ran'], K=1 if q else 2, R=2, acts=A_SETH, A=1, L=1,
                    symtruth=1, patterns=2, faults=4)
    r += per_method('pwait2-missing.timers', [1], ['timer.handler-ran'], K=1, T=1 if q else 2, R=3 if q else 4,
                    acts=A_TIMER, A=1, L=1, symtruth=0, symtime=2, patterns=1, faults=4)
    r += per_method('timerfd-missing', [0], ['timer.handler-ran'], K=1, T=2, R=7, acts=0, A=0, L=0, symtruth=0,
                    symtime=2, patterns=1, faults=8)
    r += per_method('ppoll-missing', [2], ['fd.in-handler-ran', 'timer.handler-ran'], K=1, T=1, R=2 if q else 3,
                    acts=A_SETH | A_TIMER, A=1, L=1, symtruth=0 if q else 1, symtime=2, patterns=2, faults=16)
    r += per_method('epoll_create1-missing', [0], ['fd.in-handler-ran'], K=1, R=2, acts=A_SETH, A=1, L=1, symtruth=1,
                    patterns=2, faults=32)
    # eventfd family: absent from the start / disappearing at a later call; both iv_event transports
    r.append(mt_run('eventfd-disappears.rawevent', 'harness/eventraw.c',
                    ['env.syscall-disappears-mid-run', 'raw.handler-ran', 'raw.quiescent'], preempt=1 if q else 2,
                    R=2, T=1, N=2, cfg=3))
    r.append(mt_run('eventfd-disappears.raw-registered-again', 'harness/eventraw.c',
                    ['raw.reregistered-after-eventfd-disappeared', 'raw.handler-ran', 'env.syscall-disappears-mid-run'],
                    preempt=1 if q else 2, R=1, T=1, N=3, cfg=0, rereg=1, pipecap=2))
    r.append(mt_run('eventfd-missing.epoll-kick', 'harness/event.c', ['event.cross-thread-post-delivered'],
                    preempt=2, E=2, P=2, Q=1, method=1, noeventfd=1, hb=0))
    r.append(mt_run('eventfd-missing.rawevent-transport', 'harness/event.c', ['event.cross-thread-post-delivered'],
                    preempt=2, E=2, P=2, Q=1, method=2, noeventfd=1, hb=0))
    # a facility disappears in one loop of a process that runs two: the loop that already uses it goes on
    mcv = ['env.syscall-disappears-mid-run', 'mswitch.both-loops-completed', 'mswitch.late-wakeup']
    r.append(mt_run('two-loops.timerfd-disappears', 'harness/mswitch.c', mcv, preempt=1 if q else 2, tfd=1))
    r.append(mt_run('two-loops.ppoll-disappears', 'harness/mswitch.c', mcv, preempt=1 if q else 2, tfd=0, ppoll=1,
                    method=2))
    if not q:
        r.append(mt_run('two-loops.timerfd+pwait2-disappear', 'harness/mswitch.c', mcv, preempt=1, tfd=1, pwait2=1))
    # eventfd absent: bursts of any size through the pipe fallback (the pending byte count is a solver unknown)
    r += [x for x in c09_runs(tier) if x['name'].startswith('burst.unknown-size')]
    # pipe2 / splice
    r.append(pump_run('pump.no-splice-no-pipe2', 4, ['pump.done'], N=3, B=3, splice=0, relay=1, nopipe2=1))
    # without splice the copy buffer (4 bytes with the hook) is the only store: a stream longer than it, the buffer
    # exactly full while the destination accepts nothing
    r.append(pump_run('pump.no-splice.stream-longer-than-buffer', 4, ['pump.done', 'pump.buffer-full',
                                                                      'pump.output-would-block'],
                      N=4, B=6, splice=0, relay=1, eintr=0, err=0))
    r.append(pump_run('pump.splice-no-pipe2', 4, ['pump.done'], N=3, B=3, splice=1, relay=1, nopipe2=1, pipecap=3))
    return r


def c18_runs(tier):
    q = tier == 'quick'
    defs = ['-DIVYKIS_VERIF_TIMER_SPLIT_BITS=2', '-DIVYKIS_VERIF_PUMP_BUF_SIZE=8']
    cv = ['lifecycle.complete', 'lifecycle.main-thread-cycle-clean', 'lifecycle.thread-with-deinit-clean',
          'lifecycle.thread-without-deinit-clean', 'lifecycle.deinit-with-timers-registered',
          'lifecycle.failed-register_try']
    r = []
    for m in range(4):
        x = mt_run('cycles.' + METHODS[m], 'harness/lifecycle.c', cv, preempt=1 if q else 2, method=m,
                   cycles=2 if q else 3, timers=20, parts=255, noeventfd=1 if m == 3 else 0,
                   splice=0 if m == 2 else 1)
        x['defs'] = defs
        r.append(x)
    # resource acquisition that fails half-way leaves nothing behind
    r += [x for x in work_runs(tier) if x['name'] == 'iv_thread.create-fails']
    # nothing the library allocated is lost track of while loops are running (reachability at quiescence):
    # status records queued for an interest that its handler unregisters
    r += [x for x in c11_runs(tier) if x['name'] == 'two-loops.reaper-elsewhere']
    return r


def c14_runs(tier):
    q = tier == 'quick'
    allruns = (c08_runs(tier, hb=1) + c09_runs(tier, hb=1) +
               [x for x in c10_runs(tier, hb=1) if x['name'] in ('two-threads', 'one-thread.I2', 'concurrent-forks')] +
               [x for x in c11_runs(tier, hb=1) if x['name'] in ('spawn+kill', 'two-loops.spawn-exits-at-once', 'two-loops.reaper-elsewhere', 'two-loops.spontaneous-unregister', 'two-loops.spontaneous-kill', 'two-loops.reaper-elsewhere.p2')] +
               [x for x in work_runs(tier, hb=1) if x['name'] != 'null-pool'])
    for m, nm in ((1, 'epoll'), (0, 'epoll-timerfd'), (3, 'poll')):
        allruns.append(mt_run('loops.' + nm, 'harness/loops_mt.c', ['loops.concurrent-init-run-deinit'],
                              preempt=2 if q else 3, threads=2, rounds=1 if q else 2, method=m))
    allruns.append(mt_run('loops.each-starts-a-thread', 'harness/loops_mt.c', ['loops.concurrent-init-run-deinit'],
                          preempt=1 if q else 2, threads=2, rounds=1, method=1, mainloop=0, withthread=1))
    allruns.append(mt_run('loops.method-switch-mid-run', 'harness/mswitch.c', ['mswitch.both-loops-completed'],
                          preempt=1 if q else 2, tfd=1, hb=1))
    if q:
        keep = ('posters.epoll-kick', 'posters.rawevent-poll', 'owner-activity.epoll', 'pipe-transport', 'owner-pre-ops.epoll',
                'threads.eventfd2', 'threads.pipe', 'signal.eventfd2', 'one-thread.I2', 'concurrent-forks', 'spawn+kill',
                'two-loops.spawn-exits-at-once', 'two-loops.reaper-elsewhere', 'two-loops.spontaneous-unregister', 'two-loops.spontaneous-kill', 'burst.max1.put-after', 'burst.max2.put-after',
                'chain.put-in-completion', 'idle-timeout.late-submit', 'continuation.put-late', 'iv_thread',
                'loops.epoll', 'loops.epoll-timerfd', 'loops.poll', 'loops.method-switch-mid-run', 'loops.each-starts-a-thread')
        allruns = [x for x in allruns if x['name'] in keep]
    r = []
    for x in allruns:
        x = dict(x)
        x['name'] = 'race.' + x['name']
        r.append(x)
    return r


LOOP_OUTSIDE = ('more descriptors/timers/tasks, more operations per callback and more loop iterations than stated; '
                'the real kernel (the model is the trusted base); kqueue/dev-poll/port back ends (not built on Linux)')

CHECKS = {
    'C01': {'runs': c01_runs,
            'explanation': 'C01: several objects of a kind made due in the same iteration; every callback chooses '
                           '(by forking) to unregister+free itself or another object or to re-register; freed '
                           'objects are really freed, so any later library access is detected at the access.',
            'bounds': {'quick': 'K=2 fds / T=3 timers / J=3 tasks, <=2 actions per callback, 2 operations, 2 iterations',
                       'thorough': '3 operations, all four poll methods'},
            'outside': LOOP_OUTSIDE + '; for events, raw events, signal interests, wait interests and inotify objects the '
                       'bounds are those of the C08-C11/C20 harnesses run here with unregister-in-handler enabled',
            'assumptions': ENV_ASSUMPTIONS},
    'C02': {'runs': c02_runs,
            'explanation': 'C02: readiness of every descriptor is a solver unknown at every wait; at wait entry the '
                           'kernel-side interest (epoll set / pollfd array) must request every wanted band; after '
                           'dispatch every reported wanted band must have run unless cleared.',
            'bounds': {'quick': 'K=2, 1 handler-change operation, 2 iterations; K=1 level-triggered over 3 iterations',
                       'thorough': '2 operations'},
            'outside': LOOP_OUTSIDE, 'assumptions': ENV_ASSUMPTIONS},
    'C03': {'runs': c03_runs,
            'explanation': 'C03: at every handler entry: descriptor registered, handler pointer currently installed, '
                           'cookie, band condition reported by the preceding wait (readable/writable/hup/err unknowns), '
                           'at most once per iteration; struct re-registration in the operation alphabet.',
            'bounds': {'quick': 'K=2, 1 operation, 2 iterations, 4 methods', 'thorough': '2 operations'},
            'outside': LOOP_OUTSIDE, 'assumptions': ENV_ASSUMPTIONS},
    'C04': {'runs': c04_runs,
            'explanation': 'C04: expiries and every clock reading are solver unknowns; wait-entry oracle bounds the '
                           'requested sleep (or the armed timerfd) by every registered expiry relative to the clock '
                           'reading the library used; handler-entry oracle: clock >= expiry, once; the public clock iv_now read '
                           'from handlers (with iv_invalidate_now in between) is >= the expiry inside a timer handler, '
                           'never runs backwards, never ahead of the kernel clock; a timer due when a wait returned '
                           'has run at the latest one iteration later.',
            'bounds': {'quick': 'iv_now run: 2 timers, 3 iterations, 2 operations (epoll-timerfd; all four methods '
                                'in thorough); '
                                '2 timers + 1 always-readable fd, 7 iterations (timerfd optimisation engages), times '
                                'within one second (nsec unknown) and the zero instant; full (sec,nsec) unknown pairs '
                                'for 2 iterations', 'thorough': '9 iterations with 1 timer operation, 7 iterations with 2; '
                                'timer descriptor x task and x unregister runs as in quick'},
            'outside': LOOP_OUTSIDE, 'assumptions': ENV_ASSUMPTIONS},
    'C05': {'runs': c05_runs,
            'explanation': 'C05: (a) every history of L register/unregister operations from empty with unknown '
                           'expiries, then all due: fired order non-decreasing (solver), fired set = registered set; '
                           '(b) inductive step at population N: heap built through the real API, all keys replaced by '
                           'unknowns constrained only by the heap order, one operation, post-state read back by an '
                           'independent slot walker (heap order on every parent/child pair, back indices, population, '
                           'radix depth); (c) the 128 and 16384 capacity boundaries of the shipped 7-bit split with one '
                           'unknown key, and the 4/16/64 boundaries with the 2-bit hook and all keys unknown.',
            'bounds': {'quick': 'histories L<=5; step N in {0,1,2,3,5,8,13} (7-bit) and {3,4,5,15,16,17} (2-bit); '
                                'boundaries N in {127,128,16383,16384}',
                       'thorough': 'histories L<=6; step N=0..31 (7-bit), N=0..25 and 63..65 (2-bit); boundaries 127..129, '
                                   '16383..16385; keys up to 2^40 s at N in {3,7,12}'},
            'outside': 'populations between the sampled N for the inductive step; more than one unknown key at the '
                       '128/16384 boundaries; expiries beyond 10^6 s except in the far-keys runs (up to 2^40 s)',
            'assumptions': ENV_ASSUMPTIONS + ['the inductive step is only as strong as its invariant: heap order + back '
                                              'indices + radix depth bounds, checked to be re-established']},
    'C06': {'runs': c06_runs,
            'explanation': 'C06: tasks registered from setup and from task/fd/timer handlers (choice by forking); '
                           'oracles: once per registration, unregistered on entry, zero timeout while a task is '
                           'pending, re-registration by an already-run task deferred past the next poll; tasks that keep '
                           're-registering do not keep timers from running (kernel clock advancing 0.4 s per iteration '
                           'past the expiry of registered timers: a due timer runs at the latest one iteration later).',
            'bounds': {'quick': 'J=2 tasks + 1 fd + 1 timer, <=2 actions per callback, 3 operations, 3 iterations; '
                                'task chain of 9 rounds with 2 timers (concrete clock, one path per choice)',
                       'thorough': 'J=3, 4 operations, 4 methods'},
            'outside': LOOP_OUTSIDE, 'assumptions': ENV_ASSUMPTIONS},
    'C07': {'runs': c07_runs,
            'explanation': 'C07: programs over fds/timers/tasks with iv_quit and failing iv_fd_register_try at forked '
                           'points; oracles at wait entry (not quit, something registered, progress) and at return.',
            'bounds': {'quick': '1 fd + 1 timer + 1 task, 2 operations, 3 iterations', 'thorough': '3 operations'},
            'outside': LOOP_OUTSIDE + '; failing iv_event_register is checked by the C08/C07-event harness',
            'assumptions': ENV_ASSUMPTIONS},
    'C17': {'runs': c17_runs,
            'explanation': 'C17: input = B unknown bytes with EOF at a forked offset; every read/splice-in and '
                           'write/splice-out outcome (count, EAGAIN, EINTR, error, 0) is a fork; after every pump call '
                           'the solver compares the accepted output bytes with the input prefix, and the return '
                           'value, shutdown and set_bands calls are checked against the harness\'s own stream state.',
            'bounds': {'quick': 'BUF_SIZE 4 (hook), stream <= 4 bytes, 4 pump calls, one EINTR and one error, '
                                'read/write and splice modes, with/without RELAY_EOF',
                       'thorough': 'stream <= 6 bytes, 5 calls; BUF_SIZE 8 and the shipped 4096'},
            'outside': 'streams longer than the bound; in splice mode data arriving between a failed splice and '
                       'the FIONREAD probe (the pump then assumes the pipe is full until output progresses); '
                       'pipes vs stream sockets differ only through the modelled return values',
            'assumptions': ENV_ASSUMPTIONS},
    'C20': {'runs': c20_runs,
            'explanation': 'C20: one read returns m records whose watch descriptor and IN_IGNORED bit are solver '
                           'unknowns and whose name length is forked; handlers unregister+free themselves, another '
                           'watch or the whole instance; oracles: routed by descriptor (solver), in order, skipped '
                           'records match no live watch (solver), dropped before handler, nothing after unregister, '
                           'memory monitor on freed watches/instance.',
            'bounds': {'quick': 'W<=3 watches (one IN_ONESHOT), m<=3 records per read, one read',
                       'thorough': 'W=3, m=3 with instance unregistration, both epoll and poll'},
            'outside': 'several reads per run; the real inotify queue (records are produced by the harness)',
            'assumptions': ENV_ASSUMPTIONS + ['a watch dropped by the library (IN_IGNORED / IN_ONESHOT) is not '
                                              'unregistered again by the application']},
    'C08': {'runs': c08_runs,
            'explanation': 'C08: owner loop + poster threads over the real iv_event.c/iv_fd_epoll.c/iv_event_raw_posix.c '
                           'on the epoll (one-shot kick) and raw-event transports; every interleaving at the model\'s '
                           'scheduling points (lock acquisition, every modelled system call, thread start/exit) within '
                           'the preemption bound is explored by forking; the schedule dimension is enumeration, not '
                           'solver search. Oracles: handler in owner thread, runs <= posts, and at quiescence every '
                           'post is followed by a handler run that began after the post began.',
            'bounds': {'quick': '2 events, 2-3 posters x 1 post (preemption bound 3, 2 for three posters), owner '
                                'activity from handlers (2 operations)', 'thorough': '2 posts per poster, bound 4'},
            'outside': 'more threads/posts/preemptions; weak memory; instruction-level preemption between '
                       'scheduling points (justified by the absence of races, which C14 checks on the same runs)',
            'assumptions': ENV_ASSUMPTIONS},
    'C09': {'runs': c09_runs,
            'explanation': 'C09: raw events posted from the owner, poster threads, a signal handler (delivered at '
                           'forked system-call boundaries) and a "forked child" (modelled as a thread restricted to '
                           'iv_event_raw_post); bursts against pipe capacity 2-3; eventfd2, old eventfd and pipe '
                           'fallback; the write model asserts O_NONBLOCK whenever a post would block.',
            'bounds': {'quick': '1-2 raw events, 2 posters x 3 posts (> pipe capacity 2), 2 signal deliveries, '
                                'preemption bound 3', 'thorough': '5 posts per poster against capacity 3'},
            'outside': 'signal delivery between two instructions that are not system-call boundaries (the post is a '
                       'single write; nothing else is shared); a real forked child',
            'assumptions': ENV_ASSUMPTIONS},
    'C10': {'runs': c10_runs,
            'explanation': 'C10: interests with forked flags (exclusive / this-thread) in one or two loop threads; a '
                           'sender thread signals the process or a chosen thread at forked points; handlers unregister '
                           'themselves or siblings; the expected set of each delivery is computed over the harness\'s '
                           'ghost set when the library\'s signal handler is entered (this-thread interests of the '
                           'receiving thread first, else process-wide; first exclusive in the library\'s documented '
                           'order, else all non-exclusive); oracles: expected handlers run in their registering thread '
                           '(checked at quiescence), no interest runs more often than deliveries/hand-offs named it, '
                           'required hand-off from an unregistered exclusive interest, disposition restored, child '
                           'copy after fork() wakes nothing.',
            'bounds': {'quick': 'signals are delivered at waits, at unblocking and (by choice) right after a lock '
                                'acquisition; two signal numbers with the second arriving during the processing of the '
                                'first (preemption bound 2); '
                                '2-3 interests, 1-2 loop threads, 2 deliveries, 1-2 unregistrations from handlers, '
                                'preemption bound 1-2', 'thorough': '3 deliveries, bound 2-3, 3 interests over 2 threads'},
            'outside': 'delivery between two instructions that are not system-call boundaries or waits; the harness '
                       'serialises its ghost-set update with deliveries (every real execution orders the library\'s '
                       'locked tree walk before or after the update); hand-off across sets (this-thread -> process-wide) '
                       'is not required by the oracle (reading of the property: next interest of the same set)',
            'assumptions': ENV_ASSUMPTIONS},
    'C11': {'runs': c11_runs,
            'explanation': 'C11: children with and without interests (plain registration by pid and '
                           'iv_wait_interest_register_spawn through the fork model) change state (stopped, continued, '
                           'killed, exited with an unknown code) at points chosen by a world thread; interests are '
                           'unregistered and used for iv_wait_interest_kill from their handlers; oracles: the statuses '
                           'delivered to an interest are exactly, in order, those wait4 handed to the library for its '
                           'pid while it was registered; nothing after termination; no zombie at quiescence; kill never '
                           'reaches a pid whose termination was reaped; strangers are harmless.',
            'bounds': {'quick': 'owner calling iv_wait_interest_kill on its own while another thread reaps (2 loops, '
                                '3 children); '
                                '2-3 children (0-1 strangers), 3-4 state changes, 2 handler operations, preemption '
                                'bound 1-2, interests in one thread; plus two loop threads with one interest each, '
                                'one of them spawning a child that exits at once', 'thorough': '4-5 state changes, bound 2'},
            'outside': 'interests spread over several threads with registrations concurrent to reaping (the ghost '
                       'set cannot be kept in step with the library\'s locked tree from outside); pid reuse',
            'assumptions': ENV_ASSUMPTIONS},
    'C19': {'runs': c19_runs,
            'explanation': 'C19: fork() duplicates the symbolic world: the child copy runs iv_popen_child up to the '
                           'execvp model where its descriptor table is checked (pipe end on stdout/stdin, /dev/null on '
                           'the other streams, nothing leaked); the parent copy continues with a forked plan for the '
                           'child (exits at once / on the k-th SIGTERM / only on SIGKILL / by itself at +7 s) and for '
                           'the moment of iv_popen_request_close (at once, +2 s, +40 s); virtual time is advanced '
                           'through the 5 s steps; oracles on the kill() sequence, reaping, loop return and release.',
            'bounds': {'quick': '1 request, 8 child plans x 3 close moments, types r and w, epoll and poll methods',
                       'thorough': 'same, all four combinations'},
            'outside': 'several concurrent requests; pid reuse; a real exec',
            'assumptions': ENV_ASSUMPTIONS},
    'C12': {'runs': c12_runs,
            'explanation': 'C12: real iv_work.c + iv_thread_posix.c + iv_event.c + timers + loop; owner and worker '
                           'threads through the pthread model (each worker a full iv_main over the kernel model); '
                           'items submitted in bursts, from completions, as a continuation from a worker, and after / '
                           'exactly at the 10 s idle timeout (virtual clock); oracles: work once in a non-owner thread, '
                           'at most max_threads at a time, completion once in the owner after the work returned, every '
                           'submitted item completed at quiescence / loop return; NULL pool runs both in the submitter.',
            'bounds': {'quick': '2-3 items, max_threads 1-2, preemption bound 1-2, scheduling points = lock '
                                'acquisition, reads/writes of pipes/eventfds, cross-thread epoll_ctl, waits, thread '
                                'create/join/exit', 'thorough': 'bound 2-3, 3 items'},
            'outside': 'more items/threads/preemptions; operations a thread performs on kernel objects only it can '
                       'observe are not scheduling points (they commute with other threads)',
            'assumptions': ENV_ASSUMPTIONS},
    'C13': {'runs': c13_runs,
            'explanation': 'C13: same runs, iv_work_pool_put right after a burst, from the first completion, or at '
                           '+15 s (idle workers); the caller\'s struct is overwritten at once; oracles: submitted items '
                           'complete, thread_start/thread_stop paired, every pthread joined, owner iv_main returns, '
                           'pool/thread records/names freed (leak monitor), nothing touched after free. iv_thread: the '
                           'created thread ends by return, after init+deinit, after init without deinit, by '
                           'pthread_exit with and without init; the creator\'s iv_main returns only after the join.',
            'bounds': {'quick': 'as C12', 'thorough': 'as C12'},
            'outside': 'as C12; key-destructor order other than creation order',
            'assumptions': ENV_ASSUMPTIONS},
    'C14': {'runs': c14_runs,
            'explanation': 'C14: happens-before (vector clock) race monitor over every load/store that library code '
                           'performs on globals and heap during the multi-threaded scenario programs of C08/C09 '
                           'the two-thread signal scenario of C10, the spawn+kill scenario of C11 and the C12/C13 pool scenarios; sync edges: mutex/spin unlock->lock, '
                           'thread create/join, write->read on pipes/eventfds, epoll_ctl->epoll_wait. The verdict on '
                           'a path is independent of the timing actually observed.',
            'bounds': {'quick': 'the quick scenario programs of C08, C09, C10 (two), C11 (one), C12/C13', 'thorough': 'their thorough versions'},
            'outside': 'stack objects shared between threads; weak memory; one-way feature flags are whitelisted: '
                       + ', '.join(RACE_WHITELIST),
            'assumptions': ENV_ASSUMPTIONS},
    'C15': {'runs': c15_runs,
            'explanation': 'C15: the scenario programs of C02/C04/C06 (loop harness), C08/C09 (event harnesses) and C17 '
                           '(pump) re-run with the fault plan on: (a) every method exclusion list reachable on Linux; '
                           '(b) each wait failing with EINTR at a call chosen by forking within a budget; (c) '
                           'epoll_pwait2 ENOSYS/EPERM/disappearing, timerfd_create ENOSYS, ppoll ENOSYS/disappearing, '
                           'epoll_create1 ENOSYS, eventfd2/eventfd ENOSYS from the start or from a later call, pipe2 '
                           'ENOSYS, splice ENOSYS; the oracles are those of the underlying property, unchanged.',
            'bounds': {'quick': 'EINTR budget 1 per run; each optional call absent from the first call, and "may '
                                'disappear at any later call" for epoll_pwait2, ppoll, eventfd2/eventfd; base scenarios '
                                'at reduced quick bounds', 'thorough': 'EINTR budget 2, four methods everywhere'},
            'outside': 'EINTR from epoll_ctl/read/write (the model supports it, not enabled in these runs); '
                       'timerfd_create disappearing in a second thread (D3 hypothesis, not built); fault combinations',
            'assumptions': ENV_ASSUMPTIONS},
    'C18': {'runs': c18_runs,
            'explanation': 'C18: (a) the memory monitor (out-of-bounds, use-after-free/return, double free, use of '
                           'uninitialised values, leaks at the end) is on in every run of every check; (b) this check: '
                           'init/use/deinit cycles in the main thread and in short-lived threads with and without '
                           'iv_deinit (key destructor path), using descriptors, timers across radix levels (2-bit hook), '
                           'events, raw events, pump buffers, signal interest, a child thread; after every cycle no '
                           'library heap block, descriptor or thread may be left; registered descriptors are '
                           'non-blocking and close-on-exec.',
            'bounds': {'quick': '2 cycles x (main thread + thread) per method, 20 timers, preemption bound 1; every '
                                'cycle with a failing iv_fd_register_try and an application iv_tls_user module '
                                '(init/deinit hooks paired per thread, iv_tls_user_ptr/iv_inited inside and outside a loop)',
                       'thorough': '3 cycles, bound 2'},
            'outside': 'long-run growth beyond the cycles executed; kqueue/dev-poll/port back ends',
            'assumptions': ENV_ASSUMPTIONS},
    'C16': {
        'runs': avl_runs,
        'explanation': 'C16: pre-state = any balanced shape (enumerated by forking) with solver-unknown strictly '
                       'increasing keys; the implementation\'s own comparisons fork the path; post-state checked by an '
                       'independent recursive walk whose order/duplicate oracles are solver queries.',
        'bounds': {'quick': 'shapes of height <= 4 (335 shapes), histories of length 4',
                   'thorough': 'shapes of height <= 4 (335 shapes), histories of length 6'},
        'outside': 'height-5 shapes (108 675) are beyond the forking budget; "logarithmic" is claimed only through '
                   'the balance invariant',
        'assumptions': ['comparator is a strict total order on the node keys (the harness comparator)',
                        'ivsx interpreter + z3 are correct (engines cross-checked on a sample of queries)'],
    },
}

NOT_CLAIMED = {}
HOOK_COMMITS = ['11529ff']
