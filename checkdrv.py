"""Driver: ./check <id> [--tier quick|thorough] [--replay cex.json]

Rebuilds the IR from /repo's working tree, explores every run registered for
the property in checks.py, replays every counterexample concretely on the same
IR, matches reproduced violations against known_findings.json, writes
evidence/<id>.json, prints VIOLATION / KNOWN-FINDING lines.
exit 0: property held on everything explored (known findings aside)
exit 1: violation        exit 2: inconclusive / machinery error (never success)"""
import json
import os
import shutil
import sys
import time

HERE = os.path.dirname(os.path.abspath(__file__))
sys.path.insert(0, HERE)

from ivsx import run as R            # noqa: E402
from ivsx.core import MachineryError, Inconclusive   # noqa: E402
import checks                         # noqa: E402


def load_known(pid):
    p = os.path.join(HERE, 'known_findings.json')
    if not os.path.exists(p):
        return []
    data = json.load(open(p))
    return [e for e in data.get('findings', []) if e.get('property') == pid and e.get('kind') == 'known']


def matches(entry, v):
    m = entry.get('match', {})
    if 'oracle' in m and m['oracle'] != v.get('oracle'):
        return False
    if 'lib_fn' in m:
        ll = v.get('lib_loc') or ''
        if '(' + m['lib_fn'] + ')' not in ll:
            return False
    if 'msg_contains' in m and m['msg_contains'] not in (v.get('msg') or ''):
        return False
    if 'stack_contains' in m and m['stack_contains'] not in (v.get('stack') or []):
        return False
    return True


def main():
    args = sys.argv[1:]
    if not args:
        print(__doc__)
        return 2
    pid = args[0]
    tier = os.environ.get('VERIF_TIER', 'quick')
    replay = None
    jobs = None
    only = None
    i = 1
    while i < len(args):
        if args[i] == '--tier':
            tier = args[i + 1]
            i += 2
        elif args[i] == '--replay':
            replay = args[i + 1]
            i += 2
        elif args[i] == '--jobs':
            jobs = int(args[i + 1])
            i += 2
        elif args[i] == '--only':
            only = args[i + 1]
            i += 2
        else:
            i += 1
    seed = int(os.environ.get('VERIF_SEED', '0') or 0)
    spec = checks.CHECKS.get(pid)
    if spec is None:
        print('unknown property id', pid)
        return 2
    t0 = time.time()
    build_root = os.path.join(HERE, 'build', '%s-%d' % (pid, os.getpid()))
    out_dir = os.path.join(HERE, 'out', pid)
    os.makedirs(out_dir, exist_ok=True)
    runs = spec['runs'](tier)
    if only:
        runs = [r for r in runs if only in r['name']]
        if not runs:
            print('no run matches', only)
            return 2
        # a partial run is a debugging aid: its evidence does not replace the property's
        os.environ.setdefault('IVSX_EVIDENCE_DIR', os.path.join(out_dir, 'partial-evidence'))
    try:
        if replay:
            return do_replay(pid, replay, runs, build_root)
        return do_check(pid, tier, seed, spec, runs, build_root, out_dir, jobs, t0)
    finally:
        shutil.rmtree(build_root, ignore_errors=True)


_BUILDS = {}


def build_run(run, build_root):
    key = (tuple(run['sources']), tuple(run.get('lib_tus') or ()), tuple(run.get('defs', ())))
    ll = _BUILDS.get(key)
    if ll is None:
        wd = os.path.join(build_root, 'b%d' % len(_BUILDS))
        srcs = [os.path.join(HERE, s) for s in run['sources']]
        ll = R.build(wd, srcs, lib_tus=run.get('lib_tus'), extra_defs=run.get('defs', ()))
        _BUILDS[key] = ll
    return ll


def run_opts(run, tier):
    o = dict(run.get('opts', {}))
    o['params'] = run.get('params', {})
    o.setdefault('query_timeout_ms', 10000 if tier == 'quick' else 60000)
    o.setdefault('xcheck', 40 if tier == 'quick' else 10)
    return o


def do_replay(pid, path, runs, build_root):
    cex = json.load(open(path))
    run = [r for r in runs if r['name'] == cex['run']]
    if not run:
        # the counterexample may come from the other tier
        allruns = checks.CHECKS[pid]['runs']('thorough') + checks.CHECKS[pid]['runs']('quick')
        run = [r for r in allruns if r['name'] == cex['run']]
    if not run:
        print('replay: run %r not found' % cex['run'])
        return 2
    run = run[0]
    ll = build_run(run, build_root)
    vs, err = R.replay(ll, cex, opts=run_opts(run, 'quick'))
    if err:
        print('replay: machinery error:', err)
        return 2
    for v in vs:
        print('REPRODUCED oracle=%s at %s: %s' % (v['oracle'], v['loc'], v['msg']))
        print('  stack: ' + ' > '.join(v['stack'][-8:]))
        for t in v['trace'][-25:]:
            print('   ', t)
    if vs and any(v['oracle'] == cex['oracle'] for v in vs):
        print('VIOLATION property=%s replay=%s' % (pid, path))
        return 1
    print('replay: the recorded violation did not reproduce on the current tree')
    return 0


def do_check(pid, tier, seed, spec, runs, build_root, out_dir, jobs, t0):
    known = load_known(pid)
    total = None
    per_run = []
    all_viol = []
    errors = []
    covers_missing = []
    libfns = {}
    samples = []
    # wall budget per run: a run that does not finish is INCONCLUSIVE (exit 2), never a pass
    budget = spec.get('budget_s', {}).get(tier, 900 if tier == 'quick' else 3000)
    for run in runs:
        try:
            ll = build_run(run, build_root)
            res = R.explore_parallel(ll, opts=run_opts(run, tier), jobs=jobs,
                                     budget_s=run.get('budget_s', budget), min_tasks=run.get('min_tasks'),
                                     max_split=run.get('max_split', 12))
        except (MachineryError, Inconclusive) as e:
            errors.append((run['name'], type(e).__name__, str(e)))
            continue
        s = res.stats
        sys.stderr.write('[%s] run %s: %d paths, %.1fs\n' % (pid, run['name'], s.paths, res.wall))
        per_run.append({'run': run['name'], 'params': run.get('params', {}), 'bounds': run.get('bounds', ''),
                        'paths': s.paths, 'paths_ended_by_assumption': s.paths_assume,
                        'infeasible_branches_pruned': s.infeasible, 'forks': s.forks,
                        'solver_queries_branch': s.q_branch, 'solver_queries_assert': s.q_assert,
                        'solver_time_s': round(s.t_solver, 2), 'max_query_s': round(s.max_query, 3),
                        'oracle_evals_concrete': s.oracle_concrete, 'oracle_evals_solver': s.oracle_solver,
                        'interpreted_branch_steps': s.steps, 'nontrivial_paths': s.nontrivial,
                        'wall_s': round(res.wall, 1), 'covers': sorted(res.covers)})
        if total is None:
            total = s
        else:
            total.merge(s)
        for f, n in s.fn_calls.items():
            if f in res.libfns:
                libfns[f] = libfns.get(f, 0) + n
        for e in res.errors:
            errors.append((run['name'],) + tuple(e))
        for g in run.get('covers', ()):
            if g not in res.covers:
                covers_missing.append((run['name'], g))
        for v in res.violations:
            v['run'] = run['name']
            v['_ll'] = ll
            v['_run'] = run
            all_viol.append(v)
        for sm in res.samples[:2]:
            sm['run'] = run['name']
            samples.append(sm)
    # ---- replay + classify violations
    reported = []
    known_hit = []
    seen = set()
    machinery = []
    n = 0
    for v in all_viol:
        fp = (v['run'], v['fingerprint'], v.get('lib_loc'))
        if fp in seen:
            continue
        seen.add(fp)
        run = v.pop('_run')
        ll = v.pop('_ll')
        cex = {k: v[k] for k in ('run', 'kind', 'oracle', 'msg', 'loc', 'stack', 'decisions', 'values', 'trace',
                                 'fingerprint', 'lib_loc')}
        cex['property'] = pid
        cex['params'] = run.get('params', {})
        vs, err = R.replay(ll, cex, opts=run_opts(run, tier))
        if err or not vs or not any(x['oracle'] == v['oracle'] for x in vs):
            machinery.append('counterexample for oracle %s (%s) did not reproduce in concrete replay: %s'
                             % (v['oracle'], v['msg'], err or 'no violation'))
            continue
        k = [e for e in known if matches(e, v)]
        if k:
            known_hit.append((k[0], v))
            continue
        n += 1
        path = os.path.join(out_dir, 'cex-%d.json' % n)
        json.dump(cex, open(path, 'w'), indent=1)
        reported.append((path, v))
    for v in all_viol:
        v.pop('_run', None)
        v.pop('_ll', None)
    wall = time.time() - t0
    # ---- evidence
    st = total
    ev = {
        'property_id': pid, 'tier': tier, 'seed': seed, 'level': 'other',
        'coverage': {
            'explanation': 'bounded forking symbolic execution of the real ivykis code (LLVM IR compiled from '
                           '/repo/src on this run) on top of C models of the kernel; scalar data (keys, times, '
                           'masks, bytes, statuses) are solver unknowns, every branch and every oracle is decided by '
                           'z3 on every path; discrete alternatives (operation choice, shapes, schedules) are '
                           'enumerated by forking inside the stated bounds. ' + spec.get('explanation', ''),
            'evaluations': st.paths if st else 0,
            'distinct_nontrivial': st.nontrivial if st else 0,
            'rule': 'one evaluation = one complete feasible path (distinct decision sequence) through harness + '
                    'library; non-trivial = the path took at least one solver-decided branch and evaluated at least '
                    'one oracle',
            'samples': samples[:6],
            'exhaustive': not errors,
            'functions_encoded': dict(sorted(libfns.items(), key=lambda kv: -kv[1])),
            'runs': per_run,
            'bounds': spec.get('bounds', {}).get(tier, ''),
            'outside_the_claim': spec.get('outside', ''),
            'solver': {'queries_branch': st.q_branch if st else 0, 'queries_assert': st.q_assert if st else 0,
                       'time_s': round(st.t_solver, 2) if st else 0, 'engine': 'z3 %s (integer encoding of QF_BV, '
                       'bit-vector fallback, cross-checked sample)' % R.z3_version()},
            'cover_goals_missing': covers_missing,
            'known_findings_matched': [k['id'] for k, v in known_hit],
            'errors': [list(e) for e in errors] + machinery,
        },
        'assumptions': spec.get('assumptions', []),
        'wall_s': round(wall, 1),
        'violations': len(reported),
    }
    evdir = os.environ.get('IVSX_EVIDENCE_DIR', os.path.join(HERE, 'evidence'))	# seedtest --scratch: not /repo's evidence
    os.makedirs(evdir, exist_ok=True)
    json.dump(ev, open(os.path.join(evdir, pid + '.json'), 'w'), indent=1)
    # ---- verdict
    for k, v in known_hit:
        print('KNOWN-FINDING: property=%s %s' % (pid, k['what']))
    for path, v in reported:
        print('VIOLATION property=%s replay=%s' % (pid, path))
        print('  oracle=%s kind=%s at %s lib=%s' % (v['oracle'], v['kind'], v['loc'], v.get('lib_loc')))
        print('  ' + v['msg'])
    rc = 0
    if reported:
        rc = 1
    for e in errors:
        print('INCONCLUSIVE run=%s %s: %s' % (e[0], e[1], str(e[2])[:600]))
        rc = rc or 2
    for m in machinery:
        print('MACHINERY-ERROR', m)
        rc = rc or 2
    for r, g in covers_missing:
        print('VACUOUS run=%s goal=%s (cover goal never reached)' % (r, g))
        rc = rc or 2
    if st:
        print('%s %s: %d paths (%d non-trivial), %d solver queries, %.1fs solver, %.1fs wall, rc=%d'
              % (pid, tier, st.paths, st.nontrivial, st.q_branch + st.q_assert, st.t_solver, wall, rc))
    return rc


if __name__ == '__main__':
    sys.exit(main())
