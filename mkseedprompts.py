#!/usr/bin/env python3
"""mkseedprompts.py <root> <round>: create one scratch worktree of /repo per property under <root>/Cxx and write the
prompt for the seeding sub-agent of that property to <root>/prompt_Cxx.txt.  The prompt contains the text of the
property and nothing from /verif."""
import json
import subprocess
import sys

root, rnd = sys.argv[1], int(sys.argv[2])
EMPHASIS = {
 7: '''IMPORTANT for this round (six earlier rounds already used the central functions, fallback and tear-down paths, unusual API sequences, module interactions, shared helpers, wrapping counters, second-use effects, conversions, batches, return values, and scale/range thresholds): aim for one of
 (a) TWO COOPERATING SITES: a change at two places (or one change whose effect depends on an unchanged second place) where each looks correct in isolation - e.g. a flag set in one function and tested in another, a lock scope moved while another path relies on it, an initialiser and the code reading the field, a producer and a consumer that disagree by one state;
 (b) the less used public entry points and options of the modules this property involves (look through src/include/*.h and the man pages in man3/ for functions, flags and modes the tests never call) when they are combined with the ordinary ones;
 (c) behaviour in the window between two steps of one operation (after the kernel call but before the book-keeping, after the unlock but before the wake-up, between a handler returning and the loop re-examining the object) when something else happens exactly there: a callback re-entering the API, another thread's call, a signal, a child exiting.
Do it quickly: you have about 20 minutes in total; prefer a deterministic single-threaded demonstration where the property allows it.''',
 3: '''IMPORTANT for this round (two earlier rounds already used the central functions of each mechanism and the obvious secondary paths such as plain tear-down and fallback code): aim for one of
 (a) a valid-but-unusual API sequence: re-initialising and re-registering the same object, registering or unregistering one kind of object from inside a handler of a different kind, doing the same operation a second/third time, zero/boundary values, flags combined in uncommon ways;
 (b) behaviour that depends on what the kernel returns at one specific call: an error code, a short count, EAGAIN/EINTR at exactly the k-th call, a descriptor number being reused by the kernel, spurious readiness;
 (c) an interaction between two library modules (e.g. timers with descriptors, events with tasks, signals with child-wait, pump with descriptors, work pool with timers);
 (d) a bug that needs at least three steps of history to set up the state in which it bites.''',
 6: '''IMPORTANT for this round (five earlier rounds already used the central functions, fallback and tear-down paths, unusual API sequences, module interactions, shared helpers, wrapping counters, second-use effects, conversions, batches and return values): aim for a change whose effect needs SCALE or RANGE to show - one of
 (a) it only manifests beyond a threshold that small experiments stay under: more than about eight loop iterations in a particular state, more than a handful of objects of one kind, a count or size or time value beyond a few units (but still realistic: hundreds of timers, dozens of descriptors, seconds versus milliseconds, kilobytes);
 (b) it depends on a specific numeric relation between two quantities (equal, off by exactly one, one a multiple of the other, sum crossing a power of two or a second boundary);
 (c) it depends on the ORDER in which three or more objects were registered, became ready, or were removed.
State the threshold or relation precisely in NOTES.md.''',
 5: '''IMPORTANT for this round (four earlier rounds already used the central functions, fallback and tear-down paths, unusual API sequences, module interactions, shared helpers, wrapping counters and second-use effects): aim for one of
 (a) arithmetic and conversions on the way to or from the kernel: rounding of timeouts (nanoseconds to milliseconds, negative or huge differences, tv_nsec normalisation, 32-bit truncation of a 64-bit value), byte counts and offsets, event-mask translation between the library's bands and the kernel's bits;
 (b) scale: more objects than some internal batch, array or buffer holds at once (many ready descriptors in one poll, many pending events, many timers due at the same instant, many children exiting together), so that a second pass, a resize or a truncation path is exercised;
 (c) ordering and fairness promises between objects of the same kind or of different kinds inside one loop iteration (who runs first, who may starve whom, what a handler may observe about its siblings' state);
 (d) return values, errno and documented side effects of API calls in their less common outcomes (a registration that reports failure, a second unregister-like call, a query function such as iv_*_registered / iv_now / iv_inited after a state change).''',
 4: '''IMPORTANT for this round (three earlier rounds already used the central functions of each mechanism, the obvious fallback and tear-down paths, unusual API sequences and module interactions): aim for one of
 (a) a change in shared infrastructure that this property silently depends on rather than in the module itself: the inline helpers and macros in the headers (iv_list.h, iv_avl.h, iv_private.h, iv_private_posix.h, mutex.h, spinlock.h, pthr.h, eventfd-linux.h), iv_tls.c, iv_main_posix.c, iv_time_posix.c, iv_task.c, iv_timer.c, iv_fd.c - whose effect shows up only through the behaviour this property describes;
 (b) exact boundary values of the quantified dimensions: populations or counts at which internal structures grow or shrink, exactly-full or exactly-empty buffers, equal keys or equal expiries, the first/last element, zero and maximum values, counters that wrap;
 (c) behaviour on the second use: a second init after deinit, a second loop in another thread, the process after fork(), an object registered again after its handler ran, a facility that first worked and then fails;
 (d) an error or slow path whose book-keeping is subtly incomplete (a counter, flag or list membership not restored), so that nothing is visible at the failure itself and something breaks several steps later.''',
}
base = '''You are helping test a verification framework for the C library "ivykis" (an event-loop library: fd readiness via epoll/poll, timers, tasks, cross-thread events, signals, child-wait, work pools). Your job is to write ONE realistic, subtle BUG INJECTION ("seeded change") against a given behavioural property, plus a demonstration that the bug is real.

Work ONLY inside your own scratch copy of the repository: WORKTREE (a git worktree with the autotools build already configured; `make` builds the library in src/.libs and `make check` runs the 11-test suite; both work offline). Do NOT read or touch /repo or /verif or any other directory under ROOT - your result must be independent of anything there.

THE PROPERTY (this is all you are given about what should hold):
-----
PROPERTY_TEXT
-----

What to produce:
1. A small source change under WORKTREE/src (a realistic mistake a maintainer could make) that BREAKS the property above, while the library still COMPILES and the existing test suite still PASSES (`make && make check` in WORKTREE: all 11 tests pass). Do not touch the tests.
2. The bug must need something SPECIFIC to manifest - a particular interleaving, a fault at a particular point, a multi-step sequence of operations, an unusual input/population/size, or two cooperating sites that each look fine alone. It must NOT be something that ordinary simple use exposes at once.
3. A demonstration: a small C program (or a few) in WORKTREE/SEED/ that links against the library built in WORKTREE (e.g. `gcc -I WORKTREE/src/include demo.c WORKTREE/src/.libs/libivykis.a -lpthread`, use the static archive) and that FAILS (non-zero exit / crash / hang detected by alarm / sanitizer report) WITH your change and PASSES WITHOUT it. If the bug needs a rare thread interleaving or a kernel fault (EINTR, ENOSYS...), make the demonstration deterministic as far as you can (barriers/usleep to force the order; `strace -e inject=...` is available; a seccomp filter inside the demo is fine; `-Wl,--wrap=` works with the static archive; `IV_EXCLUDE_POLL_METHOD` env var selects poll methods: "epoll-timerfd epoll ppoll" excluded leaves "poll"); explain any residual nondeterminism. The machine is busy with other jobs: use generous timing margins. Verify both directions yourself: build the library with and without the change, run the demo both ways, and run `make check` with the change.
4. Leave in WORKTREE/SEED/: patch.diff (output of `git diff -- src` for your change, applicable with `git apply` at the repository root), the demo source(s), a run.sh that builds and runs the demo against the library in its parent directory and exits non-zero iff the bug manifests, and NOTES.md saying: which clause of the property is broken, what exactly is needed for it to manifest, what you ran and observed with and without the change. At the end restore WORKTREE/src to the unmodified state (git checkout -- src) and rebuild (`make`), so that only SEED/ remains as your output.

EMPHASIS
Keep the patch small (1-15 lines), plausible as a maintainer's cleanup or optimisation. Finish by replying with a short summary: the file/lines changed, the trigger, and the observed pass/fail results.
'''
subprocess.check_call(['mkdir', '-p', root])
only = set(sys.argv[3].split(',')) if len(sys.argv) > 3 else None
for l in open('/verif/properties.jsonl'):
    p = json.loads(l)
    if only and p['id'] not in only:
        continue
    i = p['id'][1:]
    wt = '%s/C%s' % (root, i)
    subprocess.check_call(['git', '-C', '/repo', 'worktree', 'add', '-q', wt, 'HEAD'])
    subprocess.check_call(['rsync', '-a', '--exclude', '.git', '/repo/', wt + '/'])
    pt = "Property %s: %s\n\nStatement: %s\n\nQuantified over: %s\n\nWhy the existing tests cannot settle it: %s\n\nSource files mainly involved: %s\n" % (
        p['id'], p['title'], p['statement'], p['quantifier']['text'], p['why_tests_cant'], ', '.join(p['anchors']['files']))
    open('%s/prompt_C%s.txt' % (root, i), 'w').write(
        base.replace('EMPHASIS', EMPHASIS[rnd]).replace('WORKTREE', wt).replace('ROOT', root).replace('PROPERTY_TEXT', pt))
print('prepared', root)
