#!/usr/bin/env python3
"""Regenerate seeded/README.md from the meta.json files."""
import glob
import json
import os

HERE = os.path.dirname(os.path.abspath(__file__))
metas = []
for p in sorted(glob.glob(os.path.join(HERE, 'seeded', '*', 'meta.json'))):
    metas.append(json.load(open(p)))


def key(m):
    s = m['seed']
    base, _, suf = s.partition('-')
    order = {'': 1, 'r2': 2, 'r3': 3}.get(suf, 9)
    return (base, order, suf)


metas.sort(key=key)
rounds = {}
missed = {}
for m in metas:
    r = m.get('round', 1)
    rounds[r] = rounds.get(r, 0) + 1
    h = m.get('history', '')
    if 'missed at first' in h or 'itself missed' in h or 'missed it' in h or 'strengthened on reading' in h:
        missed[r] = missed.get(r, 0) + 1
out = []
out.append('# Seeded changes\n')
out.append('''Each directory holds one change to ivykis written by an independent sub-agent that was given only the text of one
property and its own scratch worktree (nothing from /verif): `patch.diff`, the demonstration (`run.sh`, `*.c`,
`NOTES.md` as the sub-agent left them) and `meta.json`.  Every change compiles, passes the 11-test suite, and its
demonstration passes on the unchanged tree and fails with the change (re-verified with `confirm_seed.sh`).  None of
them is ever committed to /repo.  `seedtest.py seeded/<id>` applies the patch, runs the property's check and undoes it
(`--scratch`: against a throw-away copy of /repo).

Five rounds of 20 (one per property each), a sixth of 10 and a seventh of 15.  Round 2 was asked to avoid the most central function of each mechanism and
to look at fallbacks, tear-down, the less common poll methods, reuse and module interactions; round 3 was asked for
unusual-but-valid API sequences, kernel-return-dependent behaviour, interactions between modules and histories of three
or more steps; round 4 for changes in shared infrastructure (headers, helpers), exact boundary values (wrapping
counters, far-apart keys, populations), behaviour on the second use, and error paths with incomplete book-keeping
; round 5 for arithmetic and conversions at the kernel boundary, scale beyond internal batches, ordering and
fairness inside one iteration, and return values in uncommon outcomes; round 6 (ten properties) for changes that need
scale or range to show: thresholds above what small experiments reach, exact numeric relations, orders of three or
more objects; round 7 (the other ten properties, then five more) for two cooperating sites that each look right alone, the less used
public entry points and options, and the window between two steps of one operation (`mkseedprompts.py` holds the prompts).  `C15-d3` is not a sub-agent's change: it is the reverse of the fix of defect D3, which the C15 machinery
found by itself, kept as a regression seed.  A few changes were proposed independently more than once (C01-r2 = C03-r3,
C04 = C04-r3, C06-r3 = C07-r3, C09-r3 = C09-r4 = C09-r5 = C15-r5, C03-r4 = C03-r5, C12-r3 = C12-r5, C14-r3 = C14-r5,
C16-r4 = C16-r5, C01 = C01-r7); they are kept under each name because they were asked for under different properties.

%s

All %d are caught by the quick tier, and all but one by the check of the property they were written for (often by
neighbours too, see the column); the exception is C19-r4, a loop-core defect found through a popen scenario, which
C04/C07 catch and C19's own scenarios do not reach.
The history column says what was strengthened when a change was missed by the checks as they stood when it arrived.
The strengthening is always general - new operations in the alphabet, new unknowns, a more faithful model, an oracle
stated from the property - never a special case for the seeded input.  Patches that touched code later changed by a
`fix:` commit in /repo were rebased (the original is kept next to them).
''' % ('  \n'.join('Round %s: %d changes, %d missed at first by the seeded property\'s own check (or strengthened for it on reading the report).' % (r, rounds[r], missed.get(r, 0))
                    for r in sorted(rounds)), len(metas)))
out.append('| seed | property | change | needs | caught by | history |')
out.append('|---|---|---|---|---|---|')
for m in metas:
    cb = m.get('caught_by', '?')
    if m.get('oracle'):
        cb += ': ' + m['oracle']
    row = [m['seed'], m['property'], m['summary'], m['needs_to_manifest'], cb, m.get('history', '')]
    out.append('| ' + ' | '.join(x.replace('|', '/').replace('\n', ' ') for x in row) + ' |')
open(os.path.join(HERE, 'seeded', 'README.md'), 'w').write('\n'.join(out) + '\n')
print('seeded/README.md: %d seeds' % len(metas))
