#!/usr/bin/env python3
"""Regenerate MANIFEST.json from checks.py (claimed properties) + the not_applicable list."""
import json
import os
import sys
HERE = os.path.dirname(os.path.abspath(__file__))
sys.path.insert(0, HERE)
import checks

props = [json.loads(l) for l in open(os.path.join(HERE, 'properties.jsonl'))]
hooks_commits = getattr(checks, 'HOOK_COMMITS', [])
m = {
    "version": 1,
    "setup_cmd": "python3-vt -m compileall -q ivsx checkdrv.py checks.py && python3-vt selftest.py",
    "hooks": {"guard": "IVYKIS_VERIF",
              "enable": "checks compile /repo/src/*.c to LLVM IR with clang-14 -DIVYKIS_VERIF (plus -DIVYKIS_VERIF_* "
                        "size parameters where a run says so); the autotools build never defines it",
              "baseline_off_cmd": "make -C /repo check",
              "source_commits": hooks_commits, "add_only": True},
    "engines": [{"name": "ivsx", "path": "ivsx/",
                 "serves_properties": sorted(checks.CHECKS),
                 "kind_free_text": "own forking symbolic executor for LLVM IR (clang-14 -O0 + mem2reg of /repo/src/*.c, "
                                   "kernel models and harness), z3 5.1 deciding every symbolic branch and oracle "
                                   "(integer encoding of QF_BV with bit-vector fallback, engines cross-checked)"}],
    "checks": [],
    "not_applicable": [],
    "notes": "Exit codes: 0 held, 1 VIOLATION, 2 inconclusive/machinery (never success). known_findings.json lists "
             "genuine defects (fixed ones suppress nothing). See DESIGN.md.",
}
for p in props:
    pid = p['id']
    c = checks.CHECKS.get(pid)
    if c is None or not c.get('claimed', True):
        m["not_applicable"].append({"property_id": pid, "reason": checks.NOT_CLAIMED.get(pid, "check not built yet")})
        continue
    m["checks"].append({
        "property_id": pid,
        "quick_cmd": "./check %s --tier quick" % pid,
        "thorough_cmd": "./check %s --tier thorough" % pid,
        "evidence_file": "evidence/%s.json" % pid,
        "replay_cmd_template": "./check %s --replay {path}" % pid,
        "engine": "ivsx",
        "level_claimed": {"category": "other",
                          "text": "Bounded symbolic execution of the real code: " + c['explanation'] +
                                  " Within the stated bounds the verdict is the solver's on every feasible path "
                                  "(no sampling); nothing is claimed outside them. Bounds: quick: %s; thorough: %s."
                                  % (c['bounds']['quick'], c['bounds']['thorough']),
                          "design_ref": "DESIGN.md section 5 (%s)" % pid},
        "level_note": "Trusted base: " + "; ".join(c.get('assumptions', [])) + ". Outside the claim: " + c.get('outside', ''),
        "technique": "solver-based bounded symbolic execution of LLVM IR (own executor ivsx + z3)",
    })
json.dump(m, open(os.path.join(HERE, 'MANIFEST.json'), 'w'), indent=1)
print('claimed', [c['property_id'] for c in m['checks']])
print('not claimed', [c['property_id'] for c in m['not_applicable']])
