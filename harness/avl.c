/* C16: iv_avl.c — one operation from every balanced shape (symbolic keys), and
 * bounded histories from empty.  Oracle = independent recursive walk. */
#include <stdlib.h>
#include "sx.h"
#include "iv_avl.h"
#include "iv_list.h"

#define MAXN 64

struct node {
	struct iv_avl_node an;
	long key;
	int id;
};

static struct iv_avl_tree tree;
static struct node *nodes[MAXN];	/* in-order list of the model set */
static int nnodes;
static int next_id;

static int cmp(const struct iv_avl_node *_a, const struct iv_avl_node *_b)
{
	const struct node *a = iv_container_of(_a, struct node, an);
	const struct node *b = iv_container_of(_b, struct node, an);

	if (a->key < b->key)
		return -1;
	if (a->key > b->key)
		return 1;
	return 0;
}

static struct node *mknode(void)
{
	struct node *n = malloc(sizeof(*n));
	n->id = next_id++;
	return n;
}

/* ---- pre-state construction: every AVL shape of height exactly h ---- */
static struct iv_avl_node *build(int h, struct iv_avl_node *parent)
{
	struct node *n;
	int hl, hr;

	if (h == 0)
		return NULL;
	if (h == 1) {
		hl = hr = 0;
	} else {
		switch (sx_choose(3)) {
		case 0: hl = h - 1; hr = h - 1; break;
		case 1: hl = h - 1; hr = h - 2; break;
		default: hl = h - 2; hr = h - 1; break;
		}
	}
	n = mknode();
	n->an.parent = parent;
	n->an.height = h;
	n->an.left = build(hl, &n->an);
	/* in-order position: after the left subtree */
	n->key = sx_long("key", (-0x7fffffffffffffffL - 1), 0x7fffffffffffffffL);
	if (nnodes > 0)
		sx_assume(nodes[nnodes - 1]->key < n->key);
	nodes[nnodes++] = n;
	n->an.right = build(hr, &n->an);
	return &n->an;
}

/* ---- oracle ---- */
static struct node *walk_out[MAXN];
static int walk_n;

static int walk(struct iv_avl_node *an, struct iv_avl_node *parent)
{
	int hl, hr, h;
	struct node *n;

	if (an == NULL)
		return 0;
	sx_assert(an->parent == parent, "avl.parent-link");
	hl = walk(an->left, an);
	n = iv_container_of(an, struct node, an);
	sx_assert(walk_n < MAXN, "avl.walk-overflow");
	walk_out[walk_n++] = n;
	hr = walk(an->right, an);
	h = 1 + (hl > hr ? hl : hr);
	sx_assert(an->height == h, "avl.height-exact");
	sx_assert(hl - hr <= 1 && hr - hl <= 1, "avl.balanced");
	return h;
}

/* the in-order walk must be the model list (pointer identity, same order) with
 * `added` (if any) inserted somewhere; keys strictly increasing (solver) */
static void check_tree(struct node *added)
{
	int i, j;
	struct iv_avl_node *an;
	long sorted = 1;

	walk_n = 0;
	walk(tree.root, NULL);
	sx_assert(walk_n == nnodes + (added != NULL), "avl.population");
	j = 0;
	for (i = 0; i < walk_n; i++) {
		if (added != NULL && walk_out[i] == added) {
			added = NULL;
			continue;
		}
		sx_assert(j < nnodes && walk_out[i] == nodes[j], "avl.set-and-order");
		j++;
	}
	sx_assert(added == NULL && j == nnodes, "avl.set-and-order");
	nnodes = walk_n;
	for (i = 0; i < walk_n; i++) {
		nodes[i] = walk_out[i];
		if (i > 0)
			sorted &= (walk_out[i - 1]->key < walk_out[i]->key);
	}
	sx_assert(sorted, "avl.strict-order");
	/* traversal API */
	an = iv_avl_tree_min(&tree);
	for (i = 0; i < nnodes; i++) {
		sx_assert(an == &nodes[i]->an, "avl.forward-traversal");
		if (an == NULL)
			break;
		an = iv_avl_tree_next(an);
	}
	sx_assert(an == NULL, "avl.forward-traversal-end");
	an = iv_avl_tree_max(&tree);
	for (i = nnodes - 1; i >= 0; i--) {
		sx_assert(an == &nodes[i]->an, "avl.backward-traversal");
		if (an == NULL)
			break;
		an = iv_avl_tree_prev(an);
	}
	sx_assert(an == NULL, "avl.backward-traversal-end");
	sx_assert(iv_avl_tree_empty(&tree) == (nnodes == 0), "avl.empty");
}

struct snap {
	struct iv_avl_node *l, *r, *p;
	int h;
};
static struct snap snaps[MAXN];
static struct iv_avl_node *snap_root;

static void snapshot(void)
{
	int i;
	for (i = 0; i < nnodes; i++) {
		snaps[i].l = nodes[i]->an.left;
		snaps[i].r = nodes[i]->an.right;
		snaps[i].p = nodes[i]->an.parent;
		snaps[i].h = nodes[i]->an.height;
	}
	snap_root = tree.root;
}

static void check_unchanged(void)
{
	int i;
	sx_assert(tree.root == snap_root, "avl.dup-insert-changed-root");
	for (i = 0; i < nnodes; i++) {
		sx_assert(snaps[i].l == nodes[i]->an.left && snaps[i].r == nodes[i]->an.right &&
			  snaps[i].p == nodes[i]->an.parent && snaps[i].h == nodes[i]->an.height,
			  "avl.dup-insert-changed-node");
	}
}

/* one insert of a fresh node with an unknown key; the implementation's own
 * comparisons fork the path, the oracle is decided by the solver afterwards */
static void do_insert(void)
{
	struct node *n = mknode();
	int i, ret;
	long dup = 0;

	n->key = sx_long("newkey", (-0x7fffffffffffffffL - 1), 0x7fffffffffffffffL);
	snapshot();
	ret = iv_avl_tree_insert(&tree, &n->an);
	for (i = 0; i < nnodes; i++)
		dup |= (nodes[i]->key == n->key);
	if (ret < 0) {
		sx_cover("avl.duplicate-insert");
		sx_assert(dup, "avl.insert-failed-without-duplicate");
		check_unchanged();
		free(n);
		check_tree(NULL);
	} else {
		sx_assert(ret == 0, "avl.insert-return-value");
		sx_assert(!dup, "avl.dup-insert-must-fail");
		check_tree(n);
	}
}

/* offering a node that is already linked in the tree: its key is present, so the insert must
 * fail and change nothing (not even the offered node itself) */
static void do_reinsert(int pos)
{
	struct node *n = nodes[pos];
	int ret;

	sx_cover("avl.reinsert-linked-node");
	if (n->an.left != NULL || n->an.right != NULL)
		sx_cover("avl.reinsert-interior-node");
	snapshot();
	ret = iv_avl_tree_insert(&tree, &n->an);
	sx_assert(ret < 0, "avl.dup-insert-must-fail");
	check_unchanged();
	check_tree(NULL);
}

static void do_delete(int pos)
{
	struct node *n = nodes[pos];
	int i;

	if (n->an.left != NULL && n->an.right != NULL)
		sx_cover("avl.delete-two-children");
	if (&n->an == tree.root)
		sx_cover("avl.delete-root");
	iv_avl_tree_delete(&tree, &n->an);
	for (i = pos; i < nnodes - 1; i++)
		nodes[i] = nodes[i + 1];
	nnodes--;
	free(n);	/* any later access by the library is a use-after-free */
	check_tree(NULL);
}

/* ---- scale: a tree as tall as the height field allows in practice ---- */
static long scale_count;

static int scale_walk(struct iv_avl_node *an, struct iv_avl_node *parent, long *prev_key)
{
	int hl, hr, h;
	struct node *n;

	if (an == NULL)
		return 0;
	sx_assert(an->parent == parent, "avl.parent-link");
	hl = scale_walk(an->left, an, prev_key);
	n = iv_container_of(an, struct node, an);
	sx_assert(*prev_key < n->key, "avl.strict-order");
	*prev_key = n->key;
	scale_count++;
	hr = scale_walk(an->right, an, prev_key);
	h = 1 + (hl > hr ? hl : hr);
	sx_assert(an->height == h, "avl.height-exact");
	sx_assert(hl - hr <= 1 && hr - hl <= 1, "avl.balanced");
	return h;
}

static void scale_mode(int N)
{
	struct node *arr = calloc(N, sizeof(*arr));	/* zero-filled, as from a fresh allocation arena */
	struct iv_avl_node *an;
	long prev = -1, i, cnt = 0;
	int h;

	/* ascending keys: the tree is perfectly filled level by level, height log2(N)+1 */
	for (i = 0; i < N; i++) {
		arr[i].key = i;
		arr[i].id = (int)i;
		sx_assert(iv_avl_tree_insert(&tree, &arr[i].an) == 0, "avl.insert-failed");
	}
	scale_count = 0;
	h = scale_walk(tree.root, NULL, &prev);
	sx_assert(scale_count == N, "avl.population");
	if (h >= 16)
		sx_cover("avl.height-16-reached");
	/* delete every second node, then everything that is left of the upper half */
	for (i = 0; i < N; i += 2)
		iv_avl_tree_delete(&tree, &arr[i].an);
	for (i = N / 2 + 1; i < N; i += 2)
		iv_avl_tree_delete(&tree, &arr[i].an);
	prev = -1;
	scale_count = 0;
	scale_walk(tree.root, NULL, &prev);
	for (an = iv_avl_tree_min(&tree); an != NULL; an = iv_avl_tree_next(an))
		cnt++;
	sx_assert(cnt == scale_count, "avl.forward-traversal");
	sx_cover("avl.scale-complete");
	free(arr);
}

void sx_main(void)
{
	int mode = sx_opt("mode", 0);
	int H = sx_opt("H", 3);
	int L = sx_opt("L", 4);
	int h, i;

	INIT_IV_AVL_TREE(&tree, cmp);
	if (mode == 2) {
		scale_mode((int)sx_opt("N", 33000));
		return;
	}
	if (mode == 0) {
		/* inductive step */
		h = sx_opt("exactH", -1);
		if (h < 0)
			h = sx_choose(H + 1);
		tree.root = build(h, NULL);
		/* redundant lemmas (implied by the chain of assumptions in build):
		 * the transitive closure of the key order, so that the solver
		 * need not rediscover transitivity at the bit level */
		{
			int a, b;
			for (a = 0; a < nnodes; a++)
				for (b = a + 2; b < nnodes; b++)
					sx_assume(nodes[a]->key < nodes[b]->key);
		}
		check_tree(NULL);	/* the constructed pre-state satisfies the invariant */
		{
			int op = nnodes == 0 ? 0 : sx_choose(3);
			if (op == 0) {
				sx_cover("avl.step-insert");
				do_insert();
			} else if (op == 1) {
				sx_cover("avl.step-delete");
				do_delete(sx_choose(nnodes));
			} else {
				do_reinsert(sx_choose(nnodes));
			}
		}
	} else {
		/* histories from empty */
		for (i = 0; i < L; i++) {
			int op = nnodes == 0 ? 0 : sx_choose(3);
			if (op == 0)
				do_insert();
			else if (op == 1)
				do_delete(sx_choose(nnodes));
			else
				do_reinsert(sx_choose(nnodes));
		}
		sx_cover("avl.history-complete");
	}
	while (nnodes > 0)
		free(nodes[--nnodes]);
}
