/* C18: init / use / deinit cycles in the main thread and in short-lived threads
 * (with and without iv_deinit), every poll method; after each cycle nothing the
 * library acquired for the thread may be left (heap blocks, descriptors,
 * threads). */
#include <errno.h>
#include <pthread.h>
#include <stdlib.h>
#include <string.h>
#include <iv.h>
#include <iv_event.h>
#include <iv_event_raw.h>
#include <iv_fd_pump.h>
#include <iv_signal.h>
#include <iv_thread.h>
#include <iv_tls.h>
#include "sx.h"
#include "kmodel.h"
#include "pmodel.h"

static int P_ntimers, P_parts;
static int fired, evran, rawran;
int pth_unjoined(void);

/* an application module with per-thread state (iv_tls_user): its state lives in every thread's loop state,
 * the init hook runs in iv_init, the deinit hook in iv_deinit or when a thread exits without iv_deinit */
struct utls {
	unsigned long	magic;
	char		pad[13];	/* a size that is not a multiple of the 16-byte slot alignment */
};
static int utls_inits, utls_deinits;

static void utls_init(void *_u)
{
	struct utls *u = _u;

	memset(u, 0x5a, sizeof(*u));
	u->magic = 0x7d5a11ceUL;
	utls_inits++;
}

static void utls_deinit(void *_u)
{
	struct utls *u = _u;
	unsigned i;

	sx_assert(u->magic == 0x7d5a11ceUL, "C18.tls-user-state-clobbered");
	for (i = 0; i < sizeof(u->pad); i++)
		sx_assert(u->pad[i] == 0x5a, "C18.tls-user-state-clobbered");
	u->magic = 0;
	utls_deinits++;
}

static struct iv_tls_user utu = {
	.sizeof_state	= sizeof(struct utls),
	.init_thread	= utls_init,
	.deinit_thread	= utls_deinit,
};

static void utls_check_inside(void)
{
	struct utls *u = iv_tls_user_ptr(&utu);

	sx_assert(iv_inited(), "C18.iv_inited-false-inside-an-initialised-thread");
	sx_assert(u != NULL && u->magic == 0x7d5a11ceUL, "C18.tls-user-ptr-wrong-inside-thread");
}

static void utls_check_outside(void)
{
	sx_assert(!iv_inited(), "C18.iv_inited-true-without-a-loop");
	sx_assert(iv_tls_user_ptr(&utu) == NULL, "C18.tls-user-ptr-not-null-without-a-loop");
}

static void tmh(void *c)
{
	fired++;
}

static void evh(void *c)
{
	evran++;
	iv_event_unregister(c);
	free(c);
}

static void rawh(void *c)
{
	rawran++;
	iv_event_raw_unregister(c);
	free(c);
}

static void fdh(void *c)
{
	struct iv_fd *fd = c;

	iv_fd_unregister(fd);
	sx_assert(kfds[fd->fd].nonblock && kfds[fd->fd].cloexec, "C18.fd-not-nonblock-cloexec");
	kfds[fd->fd].kind = K_FREE;	/* the harness closes its own descriptor */
	free(fd);
}

static void bands(void *c, int in, int out)
{
}

static long pump_rd(int fd, void *buf, unsigned long n)
{
	return 0;	/* immediate EOF */
}

static void sigh(void *c)
{
}

static void child_body(void *arg)
{
	long mode = (long)arg;

	utls_check_outside();
	iv_init();
	utls_check_inside();
	if (mode) {
		iv_deinit();
		utls_check_outside();
	}
	/* mode 0: the thread exits with its loop state alive: the key destructor must release it */
}

static void use_loop(void)
{
	struct iv_timer *tm[40];
	int i;

	if (P_parts & 1) {
		/* timers: enough to add radix levels (with the 2-bit hook: 4, 16), expire half, cancel half */
		for (i = 0; i < P_ntimers; i++) {
			tm[i] = malloc(sizeof(*tm[i]));
			IV_TIMER_INIT(tm[i]);
			tm[i]->expires.tv_sec = (i & 1) ? 0 : k_now.sec + 100;
			tm[i]->expires.tv_nsec = i;
			tm[i]->handler = tmh;
			iv_timer_register(tm[i]);
		}
	}
	if (P_parts & 2) {
		struct iv_fd *fd = malloc(sizeof(*fd));
		IV_FD_INIT(fd);
		fd->fd = k_new_generic();
		kfds[fd->fd].rd = 1;
		fd->cookie = fd;
		fd->handler_in = fdh;
		iv_fd_register(fd);
	}
	if (P_parts & 128) {
		/* a registration that reports failure (the descriptor is not open) leaves nothing behind:
		 * the structure is freed at once, the descriptor number is handed out again */
		struct iv_fd *fd = malloc(sizeof(*fd));
		int ret;
		IV_FD_INIT(fd);
		fd->fd = k_new_generic();
		fd->cookie = fd;
		fd->handler_in = fdh;
		kfds[fd->fd].kind = K_FREE;
		k_epoll_ctl_fail_fd = fd->fd;
		ret = iv_fd_register_try(fd);
		k_epoll_ctl_fail_fd = -1;
		sx_assert(ret != 0, "C07.register_try-reported-success-on-failure");
		free(fd);
		sx_cover("lifecycle.failed-register_try");
	}
	if (P_parts & 4) {
		struct iv_event *ev = malloc(sizeof(*ev));
		struct iv_event_raw *raw = malloc(sizeof(*raw));
		IV_EVENT_INIT(ev);
		ev->cookie = ev;
		ev->handler = evh;
		sx_assert(iv_event_register(ev) == 0, "C18.event-register-failed");
		iv_event_post(ev);
		IV_EVENT_RAW_INIT(raw);
		raw->cookie = raw;
		raw->handler = rawh;
		sx_assert(iv_event_raw_register(raw) == 0, "C18.raw-register-failed");
		iv_event_raw_post(raw);
	}
	if (P_parts & 8) {
		struct iv_fd_pump p;
		IV_FD_PUMP_INIT(&p);
		p.from_fd = k_new_generic();
		p.to_fd = k_new_generic();
		p.cookie = &p;
		p.set_bands = bands;
		p.flags = 0;
		k_read_hook = pump_rd;
		iv_fd_pump_init(&p);
		iv_fd_pump_pump(&p);
		iv_fd_pump_destroy(&p);
		kfds[p.from_fd].kind = K_FREE;
		kfds[p.to_fd].kind = K_FREE;
	}
	if (P_parts & 16) {
		struct iv_signal is;
		IV_SIGNAL_INIT(&is);
		is.signum = SIGUSR1;
		is.flags = 0;
		is.handler = sigh;
		iv_signal_register(&is);
		iv_signal_unregister(&is);
	}
	if (P_parts & 32)
		sx_assert(iv_thread_create("c", child_body, (void *)(long)sx_choose(2)) == 0, "C18.thread-create-failed");
	iv_main();
	utls_check_inside();
	if (P_parts & 1) {
		for (i = 0; i < P_ntimers; i++) {
			if (iv_timer_registered(tm[i]))
				iv_timer_unregister(tm[i]);
			free(tm[i]);
		}
		/* the far-future timers keep the loop alive: cancel them from a callback instead */
	}
}

static struct iv_timer *far[40];
static int nfar;

static void cancel_far(void *c)
{
	int i;

	for (i = 0; i < nfar; i++) {
		iv_timer_unregister(far[i]);
		free(far[i]);
	}
	nfar = 0;
}

static void quit_task(void *c)
{
	iv_quit();
}

static void one_cycle(void)
{
	struct iv_task t;
	int i;

	iv_init();
	if (P_parts & 64) {
		/* leave the loop with iv_quit while many timers are still registered: the tear-down
		 * has to release every level of the timer store */
		struct iv_timer *q[40];
		struct iv_task qt;
		for (i = 0; i < P_ntimers; i++) {
			q[i] = malloc(sizeof(struct iv_timer));
			IV_TIMER_INIT(q[i]);
			q[i]->expires.tv_sec = k_now.sec + 500 + i;
			q[i]->expires.tv_nsec = 0;
			q[i]->handler = tmh;
			iv_timer_register(q[i]);
		}
		IV_TASK_INIT(&qt);
		qt.handler = quit_task;
		iv_task_register(&qt);
		iv_main();
		iv_deinit();
		for (i = 0; i < P_ntimers; i++)
			free(q[i]);
		sx_cover("lifecycle.deinit-with-timers-registered");
		iv_init();
	}
	if (P_parts & 1) {
		for (i = 0; i < P_ntimers; i++) {
			far[nfar] = malloc(sizeof(struct iv_timer));
			IV_TIMER_INIT(far[nfar]);
			far[nfar]->expires.tv_sec = k_now.sec + 100 + i;
			far[nfar]->expires.tv_nsec = 0;
			far[nfar]->handler = tmh;
			iv_timer_register(far[nfar]);
			nfar++;
		}
		IV_TASK_INIT(&t);
		t.handler = cancel_far;
		iv_task_register(&t);
	}
	{
		int save = P_parts;
		P_parts &= ~1;
		use_loop();
		P_parts = save;
	}
	iv_deinit();
	utls_check_outside();
}

static void *thread_cycle(void *arg)
{
	long deinit = (long)arg;
	struct iv_task t;
	int i;

	utls_check_outside();
	iv_init();
	utls_check_inside();
	if (P_parts & 1) {
		for (i = 0; i < P_ntimers; i++) {
			far[nfar] = malloc(sizeof(struct iv_timer));
			IV_TIMER_INIT(far[nfar]);
			far[nfar]->expires.tv_sec = k_now.sec + 100 + i;
			far[nfar]->expires.tv_nsec = 0;
			far[nfar]->handler = tmh;
			iv_timer_register(far[nfar]);
			nfar++;
		}
		IV_TASK_INIT(&t);
		t.handler = cancel_far;
		iv_task_register(&t);
	}
	{
		int save = P_parts;
		P_parts &= ~(1 | 32);
		use_loop();
		P_parts = save;
	}
	if (deinit)
		iv_deinit();
	return NULL;
}

static void check_clean(const char *what)
{
	sx_assert(k_count_open(1) == 0, "C18.descriptor-leak-after-cycle");
	sx_leak_check(0);
	sx_assert(sx_nthreads() == 1, "C18.thread-left-after-cycle");
	/* every thread that got a loop state has had the module tear-down hook run exactly once */
	sx_assert(utls_inits == utls_deinits, "C18.module-teardown-hook-not-paired-with-init-hook");
	sx_assert(utls_inits > 0, "C18.module-init-hook-never-ran");
}

void sx_main(void)
{
	int cycles = (int)sx_opt("cycles", 2), c, m;
	pthread_t th;

	P_ntimers = (int)sx_opt("timers", 6);
	P_parts = (int)sx_opt("parts", 63 + 128);
	m = (int)sx_opt("method", 0);
	k_env_exclude = m == 0 ? NULL : m == 1 ? "epoll-timerfd" : m == 2 ? "epoll-timerfd epoll"
									: "epoll-timerfd epoll ppoll";
	if (sx_opt("splice", 1) == 0)
		k_sys_mode[KSYS_SPLICE] = 1;
	if (sx_opt("noeventfd", 0)) {
		k_sys_mode[KSYS_EVENTFD2] = 1;
		k_sys_mode[KSYS_EVENTFD] = 1;
	}
	iv_tls_user_register(&utu);	/* before the first iv_init, as documented */
	utls_check_outside();
	for (c = 0; c < cycles; c++) {
		one_cycle();
		check_clean("main-thread cycle");
		sx_cover("lifecycle.main-thread-cycle-clean");
		/* a short-lived thread that uses the library, with and without iv_deinit */
		pthread_create(&th, NULL, thread_cycle, (void *)(long)(c & 1));
		pthread_join(th, NULL);
		check_clean("thread cycle");
		sx_cover((c & 1) ? "lifecycle.thread-with-deinit-clean" : "lifecycle.thread-without-deinit-clean");
	}
	sx_cover("lifecycle.complete");
}
