/* C12 / C13 (and C14 through the race monitor): iv_work pools and iv_thread.
 * Owner loop + worker threads created through the pthread model; work items
 * submitted in bursts, from completions and as continuations from workers;
 * the pool is released at a forked moment and the caller's structure is
 * overwritten at once; virtual time crosses the 10 s idle timeout. */
#include <errno.h>
#include <pthread.h>
#include <stdlib.h>
#include <string.h>
#include <iv.h>
#include <iv_thread.h>
#include <iv_work.h>
#include "sx.h"
#include "kmodel.h"
#include "pmodel.h"

#define MAXW 48

struct wrec {
	struct iv_work_item *it;
	int id;
	int submitted, work_runs, completions;
	int work_returned;
	int worker_tid;
};

static struct wrec W[MAXW];
static struct iv_work_pool *pool;
static int pool_alive;		/* iv_work_pool_put not yet called */
static int nW, maxthr, P_put, P_cont, P_chain, P_late, P_nullpool;
static int owner_tid;
static int running_now, max_running;
static int starts, stops;
static int next_to_submit;
static int completed;
static struct iv_timer late_timer;
extern int pth_threads_created, pth_threads_joined;
int pth_unjoined(void);

static void submit(struct wrec *w, int continuation);

static int never(void *arg)
{
	return 0;
}

/* the work function takes one second of (virtual) time: the thread is blocked meanwhile, so
 * everybody else runs without spending preemptions */
static void work_takes_time(void)
{
	long dl = (k_now.sec + 1) * 1000000000L + k_now.nsec;

	if (!sx_opt("wblock", 1) || sx_nthreads() == 1) {
		sx_sched();
		return;
	}
	sx_block_until(never, NULL, dl);
	if (k_now.sec * 1000000000L + k_now.nsec < dl) {
		k_now.sec = dl / 1000000000L;
		k_now.nsec = dl % 1000000000L;
	}
}

static void thread_start(void *c)
{
	sx_assert(sx_tid() != owner_tid, "C13.thread_start-in-owner");
	starts++;
	sx_cover("work.thread-started");
}

static void thread_stop(void *c)
{
	stops++;
	sx_assert(stops <= starts, "C13.thread_stop-without-start");
	sx_cover("work.thread-stopped");
}

static void work_fn(void *c)
{
	struct wrec *w = c;

	sx_note("work", w->id);
	sx_assert(w->submitted, "C12.work-ran-without-submit");
	w->work_runs++;
	sx_assert(w->work_runs == 1, "C12.work-ran-twice");
	if (!P_nullpool)
		sx_assert(sx_tid() != owner_tid, "C12.work-ran-in-owner-thread");
	else
		sx_assert(sx_tid() == owner_tid, "C12.null-pool-work-not-in-submitting-thread");
	w->worker_tid = sx_tid();
	running_now++;
	if (running_now > max_running)
		max_running = running_now;
	if (!P_nullpool)
		sx_assert(running_now <= maxthr, "C12.more-work-running-than-max_threads");
	if (P_cont && (w->id == 0 || P_cont == 2) && next_to_submit < nW && pool_alive) {
		/* a continuation submitted from inside a worker (the application still holds the pool) */
		sx_cover("work.continuation-from-worker");
		submit(&W[next_to_submit++], 1);
	}
	work_takes_time();
	running_now--;
	w->work_returned = 1;
}

static void maybe_put(void);

static void completion_fn(void *c)
{
	struct wrec *w = c;

	sx_note("completion", w->id);
	sx_assert(sx_tid() == owner_tid, "C12.completion-not-in-owner-thread");
	sx_assert(w->work_returned, "C12.completion-before-work-returned");
	w->completions++;
	sx_assert(w->completions == 1, "C12.completion-ran-twice");
	completed++;
	free(w->it);
	w->it = NULL;
	if (P_chain && next_to_submit < nW && (pool_alive || P_nullpool)) {
		sx_cover("work.submitted-from-completion");
		submit(&W[next_to_submit++], 0);
	}
	if (P_put == 2 && completed == 1)
		maybe_put();
}

static void submit(struct wrec *w, int continuation)
{
	struct iv_work_item *it = malloc(sizeof(*it));

	memset(it, 0xAA, sizeof(*it));
	IV_WORK_ITEM_INIT(it);
	it->cookie = w;
	it->work = work_fn;
	it->completion = completion_fn;
	w->it = it;
	w->submitted = 1;
	sx_note(continuation ? "op:submit_continuation" : "op:submit", w->id);
	if (continuation)
		iv_work_pool_submit_continuation(P_nullpool ? NULL : pool, it);
	else
		iv_work_pool_submit_work(P_nullpool ? NULL : pool, it);
}

static void maybe_put(void)
{
	if (!pool_alive)
		return;
	sx_note("op:pool_put", 0);
	pool_alive = 0;
	iv_work_pool_put(pool);
	/* the structure belongs to the caller again */
	memset(pool, 0x55, sizeof(*pool));
	sx_cover("work.pool-released");
}

static void late_fn(void *c)
{
	/* after the idle timeout has expired everywhere */
	if (next_to_submit < nW && pool_alive) {
		sx_cover("work.submitted-after-idle-timeout");
		submit(&W[next_to_submit++], 0);
	}
	if (P_put == 3)
		maybe_put();
}

static void final_checks(void)
{
	int i;

	for (i = 0; i < nW; i++) {
		if (!W[i].submitted)
			continue;
		sx_assert(W[i].work_runs == 1, "C12.submitted-item-never-ran");
		sx_assert(W[i].completions == 1, "C12.submitted-item-never-completed");
	}
	if (max_running > 1)
		sx_cover("work.two-items-in-parallel");
}

void sx_on_quiescent(void)
{
	/* nobody can run any more.  Without a release that is the normal end (the pool keeps the
	 * owner's loop alive); every item must have completed and idle workers must have gone */
	sx_cover("work.quiescent");
	sx_leak_check_unreachable();	/* C18: nothing the library allocated has been lost track of */
	sx_assert(pool_alive, "C13.loop-stuck-after-pool-release");
	final_checks();
	sx_assert(starts == stops, "C13.worker-alive-at-quiescence-after-idle-timeout");
}

static int idle(struct kwait_info *wi)
{
	if (sx_nthreads() == 1 && !wi->has_timeout) {
		sx_on_quiescent();
		sx_end();
	}
	return 0;
}

/* ---- iv_thread lifetime (C13, second half) ---- */
static int thr_mode, thr_ran;

static void thr_body(void *arg)
{
	thr_ran = 1;
	sx_note("thread-body", thr_mode);
	if (thr_mode == 1) {
		iv_init();
		iv_deinit();
	} else if (thr_mode == 2) {
		iv_init();	/* exits without deinit: the key destructor has to clean up */
	} else if (thr_mode == 3) {
		pthread_exit(NULL);
	} else if (thr_mode == 4) {
		iv_init();
		pthread_exit(NULL);
	}
}

static void thread_scenario(void)
{
	thr_mode = sx_choose(5);
	sx_assert(iv_thread_create("t", thr_body, NULL) == 0, "C13.iv_thread_create-failed");
	iv_main();
	/* the creator's loop returned: the thread has exited and was joined */
	sx_assert(thr_ran, "C13.thread-never-ran");
	sx_assert(pth_threads_created == 1 && pth_threads_joined == 1, "C13.iv_main-returned-before-thread-joined");
	sx_assert(sx_nthreads() == 1, "C13.thread-still-alive-after-iv_main");
	iv_deinit();
	sx_assert(k_count_open(1) == 0, "C18.descriptor-leak-after-deinit");
	sx_leak_check(0);
	sx_cover("thread.joined-and-released");
}

/* pthread_create fails (EAGAIN) at one of three iv_thread_create calls: the failure is reported, the
 * other threads are unaffected, nothing of the failed attempt is left behind */
extern int pth_create_calls, pth_create_fail_at;
static int thr2_ran;

static void thr2_body(void *arg)
{
	thr2_ran++;
}

static void thread_create_fails_scenario(void)
{
	int i, k = 1 + sx_choose(3);

	pth_create_calls = 0;
	pth_create_fail_at = k;
	for (i = 1; i <= 3; i++) {
		int ret = iv_thread_create("t", thr2_body, NULL);
		if (i == k)
			sx_assert(ret != 0, "C13.iv_thread_create-reported-success-although-pthread_create-failed");
		else
			sx_assert(ret == 0, "C13.iv_thread_create-failed");
	}
	iv_main();
	sx_assert(thr2_ran == 2, "C13.thread-never-ran");
	sx_assert(pth_threads_created == 2 && pth_threads_joined == 2, "C13.iv_main-returned-before-thread-joined");
	sx_assert(sx_nthreads() == 1, "C13.thread-still-alive-after-iv_main");
	iv_deinit();
	sx_assert(k_count_open(1) == 0, "C18.descriptor-leak-after-deinit");
	sx_leak_check(0);
	sx_cover("thread.create-failure-survived");
}

void sx_main(void)
{
	int i, burst;

	nW = (int)sx_opt("W", 2);
	maxthr = (int)sx_opt("max", 1);
	P_put = (int)sx_opt("put", 0);		/* 0 never, 1 right after the burst, 2 from the first completion, 3 at +15 s */
	P_cont = (int)sx_opt("cont", 0);
	P_chain = (int)sx_opt("chain", 0);
	P_late = (int)sx_opt("late", 0);
	P_nullpool = (int)sx_opt("nullpool", 0);
	burst = (int)sx_opt("burst", nW);
	k_idle_hook = idle;
	k_env_exclude = sx_opt("poll", 0) ? "epoll-timerfd epoll ppoll" : sx_opt("tfd", 0) ? NULL : "epoll-timerfd";
	if (sx_opt("hb", 0))
		sx_hb_enable();
	owner_tid = sx_tid();
	iv_init();
	if (sx_opt("threadtest", 0) == 2) {
		thread_create_fails_scenario();
		return;
	}
	if (sx_opt("threadtest", 0)) {
		thread_scenario();
		return;
	}
	for (i = 0; i < nW; i++)
		W[i].id = i;
	if (!P_nullpool) {
		pool = malloc(sizeof(*pool));
		memset(pool, 0xAA, sizeof(*pool));
		IV_WORK_POOL_INIT(pool);
		pool->max_threads = maxthr;
		pool->cookie = NULL;
		pool->thread_start = thread_start;
		pool->thread_stop = thread_stop;
		sx_assert(iv_work_pool_create(pool) == 0, "C12.pool-create-failed");
		pool_alive = 1;
	}
	for (i = 0; i < burst && next_to_submit < nW; i++) {
		if (i > 0 && sx_opt("gap", 0))
			sx_sched();	/* the owner is busy between two submissions: workers may run meanwhile */
		submit(&W[next_to_submit++], 0);
	}
	if (P_put == 1)
		maybe_put();
	if (P_late || P_put == 3) {
		IV_TIMER_INIT(&late_timer);
		late_timer.expires.tv_sec = k_now.sec + (int)sx_opt("lateat", 15);
		late_timer.expires.tv_nsec = 0;
		late_timer.handler = late_fn;
		iv_timer_register(&late_timer);
	}
	iv_main();
	/* the loop returned: legal only when nothing keeps it alive */
	sx_assert(!pool_alive, "C07.iv_main-returned-with-pool-alive");
	final_checks();
	if (!P_nullpool) {
		sx_assert(starts == stops, "C13.thread_start-thread_stop-not-paired");
		sx_assert(pth_threads_created == pth_threads_joined, "C13.worker-not-joined");
		sx_assert(sx_nthreads() == 1, "C13.worker-still-alive-after-loop-returned");
		free(pool);
	}
	iv_deinit();
	sx_assert(k_count_open(1) == 0, "C18.descriptor-leak-after-deinit");
	sx_leak_check(0);
	sx_cover("work.loop-returned-and-everything-released");
}
