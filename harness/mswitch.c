/* C15 (x C14): a facility disappears in mid-run in a process with more than one
 * loop.  Two threads run independent loops on the default method.  Each has a
 * far timer and a descriptor that wakes it often enough for the loop to move
 * its timeout into a timer descriptor (timerfd_create: may succeed, or fail with
 * ENOSYS from any call on - forked).  After the switch each loop is woken once
 * more and has to go on: the far timer still fires exactly once and on time,
 * handlers are called only for what the kernel reported, nothing is lost. */
#include <pthread.h>
#include <unistd.h>
#include <stdlib.h>
#include <string.h>
#include <iv.h>
#include "sx.h"
#include "kmodel.h"
#include "pmodel.h"

#define NT 2

struct cl {
	struct iv_fd fd;
	struct iv_timer tm[3];
	int id;
	int kfd;
	int fd_registered;
	int calls;
	int fired;
	int done;
	int tid;
	int idle_returns;	/* waits that returned events without any handler running since */
};

static struct cl C[NT];
static int wakeups, far;

static void fdh(void *c)
{
	struct cl *me = c;

	sx_note("cb:fd", me->id);
	sx_assert(me->fd_registered, "C01.fd-handler-after-unregister");
	sx_assert(kfds[me->kfd].rd, "C03.handler_in-without-readiness");
	me->calls++;
	me->idle_returns = 0;
	if (me->calls == wakeups) {
		/* the data is consumed; the peer loop gets one more wake-up later */
		kfds[me->kfd].rd = 0;
		if (!C[1 - me->id].done)
			kfds[C[1 - me->id].kfd].rd = 1;
	} else if (me->calls > wakeups) {
		kfds[me->kfd].rd = 0;
		sx_cover("mswitch.late-wakeup");
	}
}

static void tmh(void *c)
{
	struct cl *me = c;

	sx_note("cb:timer", me->id);
	me->fired++;
	me->idle_returns = 0;
	sx_assert(me->fired <= 3, "C04.timer-fired-twice");
	sx_assert(k_now.sec >= far + 10 * (me->fired - 1), "C04.timer-fired-early");
	sx_assert(k_now.sec <= far + 10 * (me->fired - 1), "C04.timer-fired-late");
	if (me->fired == 3 && me->fd_registered) {
		iv_fd_unregister(&me->fd);
		me->fd_registered = 0;
	}
}

static void client(struct cl *me)
{
	int i;

	me->tid = sx_tid();
	iv_init();
	IV_FD_INIT(&me->fd);
	me->kfd = k_new_generic();
	kfds[me->kfd].rd = 1;
	me->fd.fd = me->kfd;
	me->fd.cookie = me;
	me->fd.handler_in = fdh;
	iv_fd_register(&me->fd);
	me->fd_registered = 1;
	for (i = 0; i < 3; i++) {
		IV_TIMER_INIT(&me->tm[i]);
		me->tm[i].cookie = me;
		me->tm[i].handler = tmh;
		me->tm[i].expires.tv_sec = far + 10 * i;
		me->tm[i].expires.tv_nsec = 0;
		iv_timer_register(&me->tm[i]);
	}
	iv_main();
	sx_assert(me->fired == 3, "C04.timer-never-fired");
	sx_assert(me->calls >= wakeups, "C02.ready-descriptor-not-served");
	me->done = 1;
	iv_deinit();
	close(me->kfd);
}

/* a wait that reports events is followed by a handler; a loop that keeps coming back from the
 * kernel with events and runs nothing is spinning */
static void wait_returned(struct kwait_info *wi, int n)
{
	int i;

	for (i = 0; i < NT; i++)
		if (C[i].tid == sx_tid() && !C[i].done && n > 0) {
			C[i].idle_returns++;
			sx_assert(C[i].idle_returns < 3, "C07.loop-spins-on-events-nobody-handles");
		}
}

static void *thr(void *arg)
{
	client(arg);
	return NULL;
}

void sx_main(void)
{
	pthread_t t;
	int m = (int)sx_opt("method", 0);

	wakeups = (int)sx_opt("wakeups", 6);
	far = (int)k_now.sec + 50;
	k_env_exclude = m == 0 ? NULL : m == 1 ? "epoll-timerfd" : m == 2 ? "epoll-timerfd epoll"
									: "epoll-timerfd epoll ppoll";
	if (sx_opt("hb", 0))
		sx_hb_enable();
	/* a first complete initialisation settles the process-wide one-time choices */
	iv_init();
	iv_deinit();
	if (sx_opt("tfd", 1) == 1)
		k_sys_mode[KSYS_TIMERFD] = 2;
	else if (sx_opt("tfd", 1) > 1)
		k_sys_fail_from[KSYS_TIMERFD] = (int)sx_opt("tfd", 1);
	if (sx_opt("ppoll", 0))
		k_sys_mode[KSYS_PPOLL] = 2;
	if (sx_opt("pwait2", 0))
		k_sys_mode[KSYS_EPOLL_PWAIT2] = 2;
	k_wait_return_hook = wait_returned;
	C[0].id = 0;
	C[0].tid = C[1].tid = -1;
	C[1].id = 1;
	pthread_create(&t, NULL, thr, &C[1]);
	client(&C[0]);
	pthread_join(t, NULL);
	sx_assert(k_count_open(1) == 0, "C18.descriptor-leak-after-deinit");
	sx_leak_check(0);
	sx_cover("mswitch.both-loops-completed");
}
