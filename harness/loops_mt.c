/* C14 (and C18): independent loops initialised, used and torn down concurrently in
 * different threads, after a first complete iv_init in the main thread.  Each
 * thread registers an iv_event (the process-wide wake-up descriptor is
 * reference counted across threads), a timer and a task, runs its loop and
 * deinitialises.  The happens-before monitor decides. */
#include <pthread.h>
#include <stdlib.h>
#include <string.h>
#include <iv.h>
#include <iv_event.h>
#include <iv_thread.h>
#include "sx.h"
#include "kmodel.h"
#include "pmodel.h"

static int rounds;

static void evh(void *c)
{
	struct iv_event *ev = c;

	iv_event_unregister(ev);
	free(ev);
}

static void tmh(void *c)
{
	free(c);
}

static int children_ran;

static void child_body(void *arg)
{
	children_ran++;
}

static void cycle(void)
{
	struct iv_event *ev = malloc(sizeof(*ev));
	struct iv_timer *tm = malloc(sizeof(*tm));

	iv_init();
	IV_EVENT_INIT(ev);
	ev->cookie = ev;
	ev->handler = evh;
	sx_assert(iv_event_register(ev) == 0, "C14.event-register-failed");
	iv_event_post(ev);
	IV_TIMER_INIT(tm);
	tm->cookie = tm;
	tm->handler = tmh;
	tm->expires.tv_sec = 0;
	tm->expires.tv_nsec = 0;
	iv_timer_register(tm);
	if (sx_opt("withthread", 0)) {
		/* each loop starts a thread of its own: the first such calls of the process are concurrent */
		sx_assert(iv_thread_create("child", child_body, NULL) == 0, "C13.iv_thread_create-failed");
	}
	iv_main();
	iv_deinit();
}

static void *thr(void *arg)
{
	int i;

	for (i = 0; i < rounds; i++)
		cycle();
	return NULL;
}

void sx_main(void)
{
	pthread_t t[3];
	int i, n = (int)sx_opt("threads", 2), m = (int)sx_opt("method", 0);

	rounds = (int)sx_opt("rounds", 1);
	k_env_exclude = m == 0 ? NULL : m == 1 ? "epoll-timerfd" : m == 2 ? "epoll-timerfd epoll"
									: "epoll-timerfd epoll ppoll";
	sx_hb_enable();
	/* a first complete initialisation settles the process-wide one-time choices */
	iv_init();
	iv_deinit();
	for (i = 0; i < n; i++)
		pthread_create(&t[i], NULL, thr, NULL);
	if (sx_opt("mainloop", 1))
		cycle();	/* the main thread runs a loop of its own meanwhile */
	for (i = 0; i < n; i++)
		pthread_join(t[i], NULL);
	sx_assert(k_count_open(1) == 0, "C18.descriptor-leak-after-deinit");
	sx_leak_check(0);
	sx_assert(sx_nthreads() == 1, "C18.thread-left");
	if (sx_opt("withthread", 0))
		sx_assert(children_ran == n + (sx_opt("mainloop", 1) ? 1 : 0) * 1, "C13.thread-never-ran");
	sx_cover("loops.concurrent-init-run-deinit");
}
