/* Main-loop harness: descriptors, timers and tasks driven through iv_main on the
 * kernel model.  Serves C01 (fd/timer/task), C02, C03, C04, C06, C07 and, with
 * the fault plan switched on, C15.  Every object is individually malloc'ed
 * and freed as soon as the documentation allows (right after unregister, or in
 * the handler for one-shot objects). */
#include <stdlib.h>
#include <string.h>
#include <iv.h>
#include "iv_private.h"
#include "sx.h"
#include "kmodel.h"
#include "pmodel.h"

#define MAXK 4
#define MAXT 4
#define MAXJ 4

enum { B_IN, B_OUT, B_ERR };

struct fdrec {
	struct iv_fd *obj;
	int kfd;
	int registered;
	int want[3];		/* ghost: handler installed for band */
	long reported[3];	/* band condition as reported by the last wait (0/1, may be unknown) */
	long expect[3];		/* handler must run in this iteration */
	int called[3];
	int id;
	int ever_ready;
	int kept;		/* unregistered struct kept for re-registration without IV_FD_INIT */
};

struct tmrec {
	struct iv_timer *obj;
	int registered;
	long esec, ensec;
	int fired_this_reg;
	int id;
	int reg_wait;		/* number of waits entered when it was registered */
	int overdue;		/* was due when a wait returned and did not run in the iteration that followed */
};

struct tkrec {
	struct iv_task *obj;
	int registered;
	int runs_this_reg;
	int reg_round;		/* ghost round in which it was registered */
	int reg_by_ran_task;	/* registered by a task that had already run in that round */
	int polls_at_reg;
	int id;
};

static struct fdrec F[MAXK];
static struct tmrec T[MAXT];
static struct tkrec J[MAXJ];
static int nK, nT, nJ;

/* parameters */
static int P_method, P_R, P_A, P_L, P_acts, P_symtruth, P_persist, P_symtime, P_faults;
static long P_tick;
#define ACT_UNREG_FD	1
#define ACT_SETH	2
#define ACT_REG_FD	4
#define ACT_TIMER	8
#define ACT_TASK	16
#define ACT_QUIT	32
#define ACT_REG_TRY	64
#define ACT_VALIDATE	128

/* ghost loop state */
static int ops_left;
static int ghost_count;		/* objects registered, by the harness's own accounting */
static int quit_called;
static int in_main;
static int cb_depth;
static int nwaits;
static int prev_wait_returned;	/* the previous wait returned normally (not interrupted) */
static int callbacks_since_wait;
static int last_wait_nready, fruitless_wakeups;
static int zero_waits_in_a_row;
static int task_round;		/* increments at every wait (a "round" of tasks ends at a wait) */
static int tasks_ran_this_round;
static struct ktime last_reading;
static int have_reading;
static int main_tid;
static int closed_for_probe;
static int in_probe;		/* inside iv_fd_register_try: the poll methods probe the descriptor with poll() */

static void h_in(void *c);
static void h_out(void *c);
static void h_err(void *c);
static void h_timer(void *c);
static void h_task(void *c);
static void do_actions(void);

static const char *excl[4] = { NULL, "epoll-timerfd", "epoll-timerfd epoll", "epoll-timerfd epoll ppoll" };

/* ------------------------------------------------------------ callbacks' common entry */
static void cb_enter(void)
{
	sx_assert(in_main, "C07.callback-outside-iv_main");
	sx_assert(cb_depth == 0, "C07.callbacks-nested");
	sx_assert(sx_tid() == main_tid, "C07.callback-in-wrong-thread");
	cb_depth++;
	callbacks_since_wait++;
	zero_waits_in_a_row = 0;
}

static void cb_leave(void)
{
	cb_depth--;
}

/* ------------------------------------------------------------ fd operations */
static void (*const hfn[3])(void *) = { h_in, h_out, h_err };

static void fd_set_ghost_unreg(struct fdrec *r)
{
	int b;

	r->registered = 0;
	for (b = 0; b < 3; b++) {
		r->want[b] = 0;
		r->expect[b] = 0;
		r->reported[b] = 0;
	}
	ghost_count--;
}

static void op_fd_unregister(struct fdrec *r)
{
	sx_note("op:fd_unregister", r->id);
	iv_fd_unregister(r->obj);
	sx_assert(!iv_fd_registered(r->obj), "C01.fd-still-registered-after-unregister");
	if ((P_acts & ACT_REG_FD) && sx_choose(2)) {
		/* keep the struct for re-registration as it is (reconnect pattern, no IV_FD_INIT) */
		sx_cover("fd.struct-kept-for-reuse");
		r->kept = 1;
	} else {
		free(r->obj);	/* any later library access is a use-after-free (C01/C18) */
		r->obj = NULL;
	}
	fd_set_ghost_unreg(r);
}

static void op_fd_set_handler(struct fdrec *r, int b)
{
	void (*h)(void *) = r->want[b] ? NULL : hfn[b];

	sx_note(r->want[b] ? "op:fd_clear_handler" : "op:fd_set_handler", r->id * 10 + b);
	if (b == B_IN)
		iv_fd_set_handler_in(r->obj, h);
	else if (b == B_OUT)
		iv_fd_set_handler_out(r->obj, h);
	else
		iv_fd_set_handler_err(r->obj, h);
	r->want[b] = !r->want[b];
	if (!r->want[b])
		r->expect[b] = 0;
}

static void op_fd_register(struct fdrec *r, int pattern, int try)
{
	struct iv_fd *fd;
	int b, ret;

	if (r->kept) {
		/* the very struct that was unregistered, private fields as the library left them */
		fd = r->obj;
		fd->handler_in = NULL;
		fd->handler_out = NULL;
		fd->handler_err = NULL;
		r->kept = 0;
		sx_cover("fd.struct-reused-without-init");
	} else {
		fd = malloc(sizeof(*fd));
		memset(fd, 0xAA, sizeof(*fd));	/* registration must not depend on stale contents */
		IV_FD_INIT(fd);
	}
	fd->fd = r->kfd;
	fd->cookie = r;
	for (b = 0; b < 3; b++)
		r->want[b] = 0;
	/* pattern: 0 in, 1 in+out+err, 2 none, 3 out, 4 err */
	if (pattern == 0 || pattern == 1) {
		fd->handler_in = h_in;
		r->want[B_IN] = 1;
	}
	if (pattern == 1 || pattern == 3) {
		fd->handler_out = h_out;
		r->want[B_OUT] = 1;
	}
	if (pattern == 1 || pattern == 4) {
		fd->handler_err = h_err;
		r->want[B_ERR] = 1;
	}
	r->obj = fd;
	sx_note(try ? "op:fd_register_try" : "op:fd_register", r->id * 10 + pattern);
	if (try) {
		int fail = 0;
		if (P_faults & 1) {
			fail = sx_choose(2);
			if (fail) {
				if (P_method >= 2) {
					/* poll methods probe the descriptor: it is closed at this moment; the
					 * number is handed out again to a new descriptor right afterwards */
					sx_cover("C07.register_try-fails");
					kfds[r->kfd].kind = K_FREE;
					closed_for_probe = 1;
				} else {
					k_epoll_ctl_fail_fd = r->kfd;
					sx_cover("C07.register_try-fails");
				}
			}
		}
		in_probe = 1;
		ret = iv_fd_register_try(fd);
		in_probe = 0;
		if (closed_for_probe) {
			kfds[r->kfd].kind = K_GENERIC;	/* the descriptor number is in use again */
			closed_for_probe = 0;
		}
		k_epoll_ctl_fail_fd = -1;
		if (fail) {
			sx_assert(ret != 0, "C07.register_try-reported-success-on-failure");
			sx_assert(!iv_fd_registered(fd), "C07.failed-register-left-registered");
			if (P_acts & ACT_REG_FD) {
				/* the application keeps the struct and registers it later, as it is */
				sx_cover("fd.struct-kept-after-failed-try");
				r->kept = 1;
			} else {
				free(fd);
				r->obj = NULL;
			}
			for (b = 0; b < 3; b++)
				r->want[b] = 0;
			return;
		}
		sx_assert(ret == 0, "C07.register_try-failed-without-fault");
	} else {
		iv_fd_register(fd);
	}
	r->registered = 1;
	for (b = 0; b < 3; b++) {
		r->expect[b] = 0;
		r->reported[b] = 0;
		r->called[b] = 0;
	}
	ghost_count++;
	/* C18: descriptors handed to the library become non-blocking, close-on-exec */
	sx_assert(kfds[r->kfd].nonblock && kfds[r->kfd].cloexec, "C18.fd-not-nonblock-cloexec");
}

static void fd_handler_common(struct fdrec *r, int b)
{
	cb_enter();
	sx_note("cb:fd", r->id * 10 + b);
	sx_assert(r->registered, "C01.fd-handler-after-unregister");
	if (r->registered) {
		sx_assert(r->obj != NULL && r->obj->cookie == r, "C03.wrong-cookie");
		sx_assert(r->want[b], "C03.cleared-handler-called");
		sx_assert(r->reported[b], "C03.handler-without-reported-condition");
		sx_assert(r->called[b] == 0, "C03.band-handler-twice-in-iteration");
		r->called[b]++;
		if (b == B_IN)
			sx_cover("fd.in-handler-ran");
		if (b == B_OUT)
			sx_cover("fd.out-handler-ran");
		if (b == B_ERR)
			sx_cover("fd.err-handler-ran");
	}
	do_actions();
	cb_leave();
}

static void h_in(void *c)
{
	fd_handler_common(c, B_IN);
}

static void h_out(void *c)
{
	fd_handler_common(c, B_OUT);
}

static void h_err(void *c)
{
	fd_handler_common(c, B_ERR);
}

/* the loop's clock as the application sees it (iv_now): it is never ahead of the kernel clock, it never runs backwards, and inside a timer handler it is at or past
 * that timer's expiry (C04's statement in terms of the public clock) */
static struct ktime prev_iv_now;
static int have_prev_iv_now;

static void check_iv_now(const struct ktime *expiry)
{
	const struct timespec *n = __iv_now_location_valid();
	struct ktime v;

	v.sec = n->tv_sec;
	v.nsec = n->tv_nsec;
	sx_assert(have_reading && k_time_le(&v, &k_now), "C04.iv_now-ahead-of-the-kernel-clock");
	if (have_prev_iv_now)
		sx_assert(k_time_le(&prev_iv_now, &v), "C04.iv_now-runs-backwards");
	if (expiry != NULL)
		sx_assert(k_time_le(expiry, &v), "C04.iv_now-before-expiry-in-timer-handler");
	prev_iv_now = v;
	have_prev_iv_now = 1;
	sx_cover("C04.iv_now-read");
}

/* ------------------------------------------------------------ timers */
static void op_timer_register(struct tmrec *r)
{
	struct iv_timer *t = malloc(sizeof(*t));

	memset(t, 0xAA, sizeof(*t));
	IV_TIMER_INIT(t);
	if (P_symtime == 1) {
		r->esec = sx_long("expiry.sec", 0, (1L << 31) - 1);
		r->ensec = sx_long("expiry.nsec", 0, 999999999);
	} else if (P_symtime == 2) {
		/* same second as the clock (or the zero instant): sub-second arithmetic and ms rounding */
		r->esec = sx_choose(2) ? 0 : k_now.sec;
		r->ensec = r->esec ? sx_long("expiry.nsec", 0, 999999999) : 0;
	} else if (P_symtime == 3) {
		r->esec = sx_long("expiry.sec", 0, (1L << 31) - 1);
		r->ensec = 0;
	} else if (P_symtime == 4) {
		r->esec = 0;		/* already in the past: all timers due in the same iteration */
		r->ensec = r->id;
	} else {
		r->esec = k_now.sec + r->id;
		r->ensec = 0;
	}
	t->expires.tv_sec = r->esec;
	t->expires.tv_nsec = r->ensec;
	t->cookie = r;
	t->handler = h_timer;
	r->obj = t;
	sx_note("op:timer_register", r->id);
	iv_timer_register(t);
	sx_assert(iv_timer_registered(t), "C04.timer-not-registered-after-register");
	r->registered = 1;
	r->fired_this_reg = 0;
	r->reg_wait = nwaits;
	r->overdue = 0;
	ghost_count++;
}

static void op_timer_unregister(struct tmrec *r)
{
	sx_note("op:timer_unregister", r->id);
	iv_timer_unregister(r->obj);
	sx_assert(!iv_timer_registered(r->obj), "C01.timer-still-registered-after-unregister");
	free(r->obj);
	r->obj = NULL;
	r->registered = 0;
	ghost_count--;
}

static void h_timer(void *c)
{
	struct tmrec *r = c;
	struct ktime e;

	cb_enter();
	sx_note("cb:timer", r->id);
	sx_cover("timer.handler-ran");
	sx_assert(r->registered, "C01.timer-handler-after-unregister");
	if (r->registered) {
		sx_assert(r->fired_this_reg == 0, "C04.timer-fired-twice");
		r->fired_this_reg++;
		/* one-shot: already unregistered on entry */
		sx_assert(!iv_timer_registered(r->obj), "C04.timer-registered-inside-handler");
		/* never early: the loop's clock (last reading handed to the library) is at or past the expiry */
		e.sec = r->esec;
		e.nsec = r->ensec;
		sx_assert(have_reading && k_time_le(&e, &last_reading), "C04.timer-fired-early");
		if (P_acts & ACT_VALIDATE)
			check_iv_now(&e);
		r->registered = 0;
		ghost_count--;
		free(r->obj);	/* may be freed from its handler */
		r->obj = NULL;
	}
	do_actions();
	cb_leave();
}

/* ------------------------------------------------------------ tasks */
static int current_task_ran;	/* a task handler is executing (or has executed) in this round */

static void op_task_register(struct tkrec *r)
{
	struct iv_task *t = malloc(sizeof(*t));

	memset(t, 0xAA, sizeof(*t));
	IV_TASK_INIT(t);
	t->cookie = r;
	t->handler = h_task;
	r->obj = t;
	sx_note("op:task_register", r->id);
	iv_task_register(t);
	sx_assert(iv_task_registered(t), "C06.task-not-registered-after-register");
	r->registered = 1;
	r->runs_this_reg = 0;
	r->polls_at_reg = nwaits;
	r->reg_by_ran_task = current_task_ran;
	ghost_count++;
}

static void op_task_unregister(struct tkrec *r)
{
	sx_note("op:task_unregister", r->id);
	iv_task_unregister(r->obj);
	sx_assert(!iv_task_registered(r->obj), "C01.task-still-registered-after-unregister");
	free(r->obj);
	r->obj = NULL;
	r->registered = 0;
	ghost_count--;
}

static void h_task(void *c)
{
	struct tkrec *r = c;
	int self_ran_before;

	cb_enter();
	sx_note("cb:task", r->id);
	sx_cover("task.handler-ran");
	sx_assert(r->registered, "C01.task-handler-after-unregister");
	if (r->registered) {
		sx_assert(r->runs_this_reg == 0, "C06.task-ran-twice");
		r->runs_this_reg++;
		sx_assert(!iv_task_registered(r->obj), "C06.task-registered-inside-handler");
		/* a registration made by a task that had already run in the round is deferred
		 * until after the next kernel poll */
		if (r->reg_by_ran_task) {
			sx_cover("C06.deferred-reregistration-observed");
			sx_assert(nwaits > r->polls_at_reg, "C06.rereg-by-ran-task-not-deferred");
		}
		r->registered = 0;
		ghost_count--;
		free(r->obj);
		r->obj = NULL;
	}
	self_ran_before = current_task_ran;
	current_task_ran = 1;
	do_actions();
	current_task_ran = 1;
	cb_leave();
}

/* ------------------------------------------------------------ action alphabet */
struct act {
	int kind, idx, arg;
};
enum { A_NONE, A_UNREG_FD, A_SETH, A_REG_FD, A_REG_TRY, A_TREG, A_TUNREG, A_JREG, A_JUNREG, A_QUIT, A_VALIDATE, A_INVALIDATE };

static int enum_actions(struct act *out)
{
	int n = 0, i, b;

	out[n++] = (struct act){ A_NONE, 0, 0 };
	for (i = 0; i < nK; i++) {
		if (F[i].registered) {
			if (P_acts & ACT_UNREG_FD)
				out[n++] = (struct act){ A_UNREG_FD, i, 0 };
			if (P_acts & ACT_SETH)
				for (b = 0; b < 3; b++)
					out[n++] = (struct act){ A_SETH, i, b };
		} else {
			if (P_acts & ACT_REG_FD) {
				out[n++] = (struct act){ A_REG_FD, i, 0 };
				out[n++] = (struct act){ A_REG_FD, i, 1 };
				out[n++] = (struct act){ A_REG_FD, i, 2 };
			}
			if (P_acts & ACT_REG_TRY) {
				out[n++] = (struct act){ A_REG_TRY, i, 0 };
				out[n++] = (struct act){ A_REG_TRY, i, 2 };
			}
		}
	}
	if (P_acts & ACT_TIMER)
		for (i = 0; i < nT; i++)
			out[n++] = (struct act){ T[i].registered ? A_TUNREG : A_TREG, i, 0 };
	if (P_acts & ACT_TASK)
		for (i = 0; i < nJ; i++)
			out[n++] = (struct act){ J[i].registered ? A_JUNREG : A_JREG, i, 0 };
	if ((P_acts & ACT_QUIT) && in_main && !quit_called)
		out[n++] = (struct act){ A_QUIT, 0, 0 };
	if (P_acts & ACT_VALIDATE) {
		out[n++] = (struct act){ A_VALIDATE, 0, 0 };
		out[n++] = (struct act){ A_INVALIDATE, 0, 0 };
	}
	return n;
}

static void perform(struct act *a)
{
	switch (a->kind) {
	case A_UNREG_FD:
		op_fd_unregister(&F[a->idx]);
		break;
	case A_SETH:
		op_fd_set_handler(&F[a->idx], a->arg);
		break;
	case A_REG_FD:
		op_fd_register(&F[a->idx], a->arg, 0);
		break;
	case A_REG_TRY:
		op_fd_register(&F[a->idx], a->arg, 1);
		break;
	case A_TREG:
		op_timer_register(&T[a->idx]);
		break;
	case A_TUNREG:
		op_timer_unregister(&T[a->idx]);
		break;
	case A_JREG:
		op_task_register(&J[a->idx]);
		break;
	case A_JUNREG:
		op_task_unregister(&J[a->idx]);
		break;
	case A_QUIT:
		sx_note("op:quit", 0);
		iv_quit();
		quit_called = 1;
		break;
	case A_VALIDATE:
		sx_note("op:read-iv_now", 0);
		check_iv_now(NULL);
		break;
	case A_INVALIDATE:
		sx_note("op:iv_invalidate_now", 0);
		iv_invalidate_now();
		break;
	}
}

static void do_actions(void)
{
	struct act acts[64];
	int k, n, c;

	for (k = 0; k < P_A && ops_left > 0; k++) {
		n = enum_actions(acts);
		c = sx_choose(n);
		if (acts[c].kind == A_NONE)
			break;
		ops_left--;
		perform(&acts[c]);
	}
}

/* ------------------------------------------------------------ kernel-side hooks (oracles) */
static long interest_for(struct kwait_info *wi, struct fdrec *r, int b)
{
	if (wi->epfd >= 0) {
		uint32_t ev;
		int dis;
		if (!k_epoll_interest(wi->epfd, r->kfd, &ev, &dis) || dis)
			return 0;
		if (b == B_IN)
			return !!(ev & EPOLLIN);
		if (b == B_OUT)
			return !!(ev & EPOLLOUT);
		return 1;
	} else {
		int i;
		for (i = 0; i < wi->nfds; i++) {
			if (wi->pfds[i].fd == r->kfd) {
				if (b == B_IN)
					return !!(wi->pfds[i].events & POLLIN);
				if (b == B_OUT)
					return !!(wi->pfds[i].events & POLLOUT);
				return 1;
			}
		}
		return 0;
	}
}

static void end_of_iteration_oracles(void)
{
	int i, b;

	for (i = 0; i < nK; i++) {
		for (b = 0; b < 3; b++) {
			/* reported and wanted and not cleared since => handler ran in this iteration */
			sx_assert(!F[i].expect[b] | (F[i].called[b] > 0), "C02.ready-wanted-band-not-dispatched");
			F[i].expect[b] = 0;
			F[i].called[b] = 0;
			F[i].reported[b] = 0;
		}
	}
}

static int timerfd_armed_for(struct kwait_info *wi, struct ktime *a)
{
	int j;

	if (wi->epfd < 0)
		return 0;
	for (j = 0; j < KMAXFD; j++) {
		if (kfds[j].kind == K_TIMERFD && ktimerfds[kfds[j].obj].armed &&
		    k_epoll_interest(wi->epfd, j, NULL, NULL)) {
			a->sec = ktimerfds[kfds[j].obj].sec;
			a->nsec = ktimerfds[kfds[j].obj].nsec;
			return 1;
		}
	}
	return 0;
}

static void final_checks(void);

static void wait_entry(struct kwait_info *wi)
{
	int i, b, anytask = 0, armed;
	struct ktime A;

	if (in_probe)
		return;
	end_of_iteration_oracles();
	nwaits++;
	task_round++;
	current_task_ran = 0;
	if (nwaits > P_R) {
		/* iteration bound of this harness: everything so far was checked */
		sx_cover("loop.iteration-bound-reached");
		sx_end();
	}
	sx_note("wait", wi->has_timeout ? (wi->to_ms != -2 ? wi->to_ms : -3) : -1);
	/* C07: the loop may only be here if it has a reason to keep running */
	sx_assert(in_main, "C07.wait-outside-iv_main");
	sx_assert(!quit_called, "C07.polls-after-quit");
	sx_assert(ghost_count > 0, "C07.polls-with-nothing-registered");
	/* C07: progress, no spinning */
	if (wi->has_timeout && (wi->to_sec == 0) & (wi->to_nsec == 0)) {
		zero_waits_in_a_row++;
		sx_assert(zero_waits_in_a_row <= 2, "C07.spins-without-dispatching");
	} else {
		zero_waits_in_a_row = 0;
	}
	/* C07: every wake-up makes progress: the kernel reporting events after which nothing is dispatched may
	 * happen once (a stale timer-descriptor expiry, a band cleared meanwhile), not again and again */
	if (last_wait_nready > 0 && callbacks_since_wait == 0)
		fruitless_wakeups++;
	else
		fruitless_wakeups = 0;
	sx_assert(fruitless_wakeups < 2, "C07.wakes-up-repeatedly-without-dispatching");
	last_wait_nready = 0;	/* an interrupted wait reports nothing */
	callbacks_since_wait = 0;
	/* C06: never sleeps with a task registered */
	for (i = 0; i < nJ; i++)
		anytask |= J[i].registered;
	armed = timerfd_armed_for(wi, &A);
	if (anytask) {
		/* a zero timeout, or (after the zero deadline repeated five times) a kernel timer that has
		 * already expired: the library arms it for the instant (0, 1 ns) */
		long immediate = wi->has_timeout ? ((wi->to_sec == 0) & (wi->to_nsec == 0))
						 : (armed ? ((A.sec == 0) & (A.nsec <= 1)) : 0);
		sx_assert(immediate, "C06.sleeps-with-task-pending");
	}
	/* C04/C06: timers are serviced whatever else keeps the loop busy (tasks that keep re-registering, ready
	 * descriptors): a timer that was registered before the previous wait was entered and whose expiry had
	 * passed when that wait returned has run by now, or at the latest in the iteration after this one (one
	 * iteration of grace covers an interrupted wait and a truncated event batch) */
	for (i = 0; i < nT; i++) {
		struct tmrec *r = &T[i];
		struct ktime e = { r->esec, r->ensec };
		if (!r->registered)
			continue;
		sx_assert(!r->overdue, "C06.due-timer-not-serviced-for-two-iterations");
		if (nwaits >= 2 && prev_wait_returned && r->reg_wait < nwaits - 1 && k_time_le(&e, &k_last_wait_return))
			r->overdue = 1;
	}
	prev_wait_returned = 0;
	/* C04: never oversleeps */
	for (i = 0; i < nT; i++) {
		struct tmrec *r = &T[i];
		long dsec, dnsec, due;
		if (!r->registered)
			continue;
		sx_assert(have_reading, "C04.timeout-computed-without-reading-the-clock");
		/* D = expiry - last clock reading given to the library */
		dsec = r->esec - last_reading.sec;
		dnsec = r->ensec - last_reading.nsec;
		due = (dsec < 0) | ((dsec == 0) & (dnsec <= 0));
		if (wi->has_timeout) {
			/* requested <= max(0, D); ms-granular calls may round up to the next ms.
			 * seconds are < 2^31, so nanosecond totals fit in 63 bits */
			long slack = (wi->to_ms != -2) ? 999999 : 0;
			long req = (wi->to_ms != -2) ? (long)wi->to_ms * 1000000L
						     : wi->to_sec * 1000000000L + wi->to_nsec;
			long D = dsec * 1000000000L + dnsec;
			/* the clock reading the library used must not be older than the return of the
			 * previous wait: measured from that instant the sleep may not overshoot either */
			long D2 = (r->esec - k_last_wait_return.sec) * 1000000000L + (r->ensec - k_last_wait_return.nsec);
			long ok2 = (req <= slack) | ((D2 > 0) & (req <= D2 + slack));
			long ok = (due ? (req == 0) : (req <= D + slack)) & ok2;
			if (!armed) {
				sx_assert(ok, "C04.oversleeps-past-earliest-timer");
			} else {
				/* an armed kernel timer bounds the sleep as well */
				struct ktime e = { r->esec, r->ensec };
				sx_assert(ok | k_time_le(&A, &e) | ((A.sec == 0) & (A.nsec == 1)),
					  "C04.oversleeps-past-earliest-timer");
			}
		} else {
			struct ktime e = { r->esec, r->ensec };
			sx_cover("C04.unbounded-wait-relies-on-timerfd");
			sx_assert(armed, "C04.unbounded-wait-with-timer-registered");
			if (armed)
				sx_assert(k_time_le(&A, &e) | ((A.sec == 0) & (A.nsec == 1)),
					  "C04.timerfd-armed-later-than-earliest-timer");
		}
	}
	if (armed)
		sx_cover("C04.timerfd-armed");
	/* concrete-clock runs: every iteration takes this much time, whether or not the library looks at the clock */
	if (P_tick) {
		k_now.nsec += P_tick;
		while (k_now.nsec >= 1000000000L) {
			k_now.nsec -= 1000000000L;
			k_now.sec++;
		}
	}
	/* new ground truth for this wait */
	for (i = 0; i < nK; i++) {
		struct kfd *f = &kfds[F[i].kfd];
		if (P_symtruth && !(P_persist && nwaits > 1)) {
			f->rd = sx_long("truth.rd", 0, 1);
			f->wr = sx_long("truth.wr", 0, 1);
			if (P_symtruth > 1) {
				f->hup = sx_long("truth.hup", 0, 1);
				f->err = sx_long("truth.err", 0, 1);
			}
		}
	}
	/* C01: nothing of an unregistered descriptor is left with the kernel (an epoll entry would
	 * carry a pointer to the freed iv_fd) */
	for (i = 0; i < nK; i++)
		if (!F[i].registered && F[i].kfd > 0)
			sx_assert(!interest_for(wi, &F[i], B_ERR), "C01.kernel-registration-left-after-unregister");
	/* C02: every wanted band of every registered fd is in the kernel's interest set */
	for (i = 0; i < nK; i++) {
		if (!F[i].registered)
			continue;
		for (b = 0; b < 3; b++)
			if (F[i].want[b])
				sx_assert(interest_for(wi, &F[i], b), "C02.wanted-band-not-requested-from-kernel");
	}
}

static void wait_return(struct kwait_info *wi, int nready)
{
	int i, j;
	struct ktruth t;

	if (in_probe)
		return;
	prev_wait_returned = 1;
	last_wait_nready = nready;
	/* what did the kernel report for each harness descriptor? */
	for (i = 0; i < nK; i++) {
		struct fdrec *r = &F[i];
		long rin = 0, rout = 0, rerr = 0, any = 0;
		if (!r->registered)
			continue;
		k_truth4(r->kfd, &t);
		/* only what was actually returned counts (maxevents may truncate; poll returns all) */
		if (wi->epfd >= 0) {
			/* returned iff requested-and-true; the model returns every ready item unless truncated */
			any = nready > 0;
		} else {
			any = nready > 0;
		}
		if (!any)
			continue;
		rin = (interest_for(wi, r, B_IN) & t.in) | t.hup | t.err;
		rout = (interest_for(wi, r, B_OUT) & t.out) | t.hup | t.err;
		rerr = t.hup | t.err;
		if (!interest_for(wi, r, B_ERR))
			rin = rout = rerr = 0;	/* not in the interest set at all */
		r->reported[B_IN] = rin;
		r->reported[B_OUT] = rout;
		r->reported[B_ERR] = rerr;
		r->expect[B_IN] = r->want[B_IN] ? rin : 0;
		r->expect[B_OUT] = r->want[B_OUT] ? rout : 0;
		r->expect[B_ERR] = r->want[B_ERR] ? rerr : 0;
	}
	(void)j;
}

/* nothing is ready: with no timeout and no kernel timer the loop legitimately sleeps
 * for ever (every wanted band was checked to be in the interest set) */
static int idle(struct kwait_info *wi)
{
	struct ktime A;

	if (in_probe)
		return 0;
	if (!wi->has_timeout && !timerfd_armed_for(wi, &A)) {
		sx_cover("loop.sleeps-with-nothing-ready");
		sx_end();
	}
	return 0;
}

/* clock readings handed to the library */
static void note_reading(void)
{
	last_reading = k_now;
	have_reading = 1;
}

/* ------------------------------------------------------------ main */
static void final_checks(void)
{
	int i;

	end_of_iteration_oracles();
	/* C07: iv_main returned: quit was called or nothing is registered */
	sx_assert(quit_called | (ghost_count == 0), "C07.iv_main-returned-with-objects-and-no-quit");
	if (!quit_called) {
		for (i = 0; i < nT; i++)
			sx_assert(!T[i].registered, "C07.returned-with-timer-registered");
		for (i = 0; i < nJ; i++)
			sx_assert(!J[i].registered, "C07.returned-with-task-registered");
	}
	if (quit_called)
		sx_cover("C07.returned-by-quit");
	else
		sx_cover("C07.returned-when-empty");
}

void sx_main(void)
{
	int i, pat;

	P_method = (int)sx_opt("method", -1);
	nK = (int)sx_opt("K", 2);
	nT = (int)sx_opt("T", 0);
	nJ = (int)sx_opt("J", 0);
	P_R = (int)sx_opt("R", 2);
	P_A = (int)sx_opt("A", 1);
	P_L = (int)sx_opt("L", 3);
	P_acts = (int)sx_opt("acts", ACT_UNREG_FD | ACT_SETH);
	P_symtruth = (int)sx_opt("symtruth", 1);
	P_persist = (int)sx_opt("persist", 0);
	P_symtime = (int)sx_opt("symtime", 0);
	P_tick = sx_opt("tick", 0);
	P_faults = (int)sx_opt("faults", 0);
	ops_left = P_L;
	if (P_method < 0)
		P_method = sx_choose(4);
	k_env_exclude = excl[P_method];
	k_clock_symbolic = P_symtime;
	k_wait_entry_hook = wait_entry;
	k_wait_return_hook = wait_return;
	k_idle_hook = idle;
	k_clock_hook = note_reading;
	k_order_choice = (int)sx_opt("order", 0);
	if (P_faults & 2)
		k_eintr_budget = (int)sx_opt("eintr", 1);
	if (P_faults & 4)
		k_sys_mode[KSYS_EPOLL_PWAIT2] = 1 + sx_choose(3);	/* absent, disappears, EPERM */
	if (P_faults & 8)
		k_sys_mode[KSYS_TIMERFD] = 1;
	if (P_faults & 16)
		k_sys_mode[KSYS_PPOLL] = 1 + sx_choose(2);
	if (P_faults & 32)
		k_sys_mode[KSYS_EPOLL_CREATE1] = 1;
	main_tid = sx_tid();

	iv_init();
	sx_note("method", P_method);
	if (sx_opt("symepoch", 0)) {
		/* the loop has been running for an unknown number of task rounds already */
		iv_get_state()->task_epoch = (uint32_t)sx_long("task.rounds-so-far", 0, 0xfffffff0L);
	}

	for (i = 0; i < nK; i++) {
		F[i].id = i;
		F[i].kfd = k_new_generic();
		if (!P_symtruth) {
			kfds[F[i].kfd].rd = 1;
			kfds[F[i].kfd].wr = (int)sx_opt("wr", 0);
		}
	}
	for (i = 0; i < nT; i++)
		T[i].id = i;
	for (i = 0; i < nJ; i++)
		J[i].id = i;

	/* setup: initial registrations */
	for (i = 0; i < nK; i++) {
		if (i > 0 && i == nK - 1 && sx_opt("lastunreg", 0))
			continue;	/* left for the registration operations */
		pat = sx_choose((int)sx_opt("patterns", 2));
		op_fd_register(&F[i], pat, 0);
	}
	for (i = 0; i < nT; i++)
		if (sx_opt("treg", 1))
			op_timer_register(&T[i]);
	for (i = 0; i < nJ; i++)
		if (sx_opt("jreg", 1))
			op_task_register(&J[i]);
	if (sx_opt("setup_actions", 0))
		do_actions();

	in_main = 1;
	sx_note("iv_main", 0);
	iv_main();
	in_main = 0;
	sx_note("iv_main-returned", 0);
	final_checks();

	/* tear down what is left, then the per-thread state (C18) */
	for (i = 0; i < nK; i++) {
		if (F[i].registered) {
			iv_fd_unregister(F[i].obj);
			free(F[i].obj);
			F[i].obj = NULL;
			fd_set_ghost_unreg(&F[i]);
		} else if (F[i].kept) {
			free(F[i].obj);
			F[i].obj = NULL;
		}
	}
	for (i = 0; i < nT; i++)
		if (T[i].registered)
			op_timer_unregister(&T[i]);
	for (i = 0; i < nJ; i++)
		if (J[i].registered)
			op_task_unregister(&J[i]);
	iv_deinit();
	sx_assert(k_count_open(1) == 0, "C18.descriptor-leak-after-deinit");
	sx_leak_check(0);
	sx_cover("loop.complete-run");
}
