/* C10: iv_signal fan-out.  Interests with forked flags in one or two loop
 * threads, a sender thread that signals the process or a particular thread at
 * forked moments, handlers that unregister themselves or a sibling.  The
 * expected set of every delivery is computed by the harness over its own
 * ghost set at the moment the library's signal handler is entered. */
#include <errno.h>
#include <pthread.h>
#include <signal.h>
#include <stdlib.h>
#include <string.h>
#include <iv.h>
#include <iv_signal.h>
#include "sx.h"
#include "kmodel.h"
#include "pmodel.h"

#define MAXI 8
#define SIGA SIGUSR1
#define SIGB SIGUSR2

struct irec {
	struct iv_signal *is;
	int registered;
	int flags;
	int signum;
	int owner;		/* thread id */
	int id;
	int pending_wake;	/* a delivery expects this interest's handler to run */
	int expected;		/* deliveries (and hand-offs) that named this interest */
	int runs;
};

static struct irec I[MAXI];
static int nI, nThreads, nD, P_unreg, P_rev;
static int loop_tid[2];
static int senders_done, nsenders;
static int handler_ops;
static struct iv_signal *slots[MAXI];

/* expected wake set of tree (tid<0: process-wide set) for signum, excluding `skip`:
 * the first exclusive interest in the library's order (exclusive first, then address),
 * else every non-exclusive one */
static int expected_set(int tid, int signum, struct irec *skip, struct irec **out)
{
	int i, n = 0;
	struct irec *ex = NULL;

	for (i = 0; i < nI; i++) {
		struct irec *r = &I[i];
		int thisthr = !!(r->flags & IV_SIGNAL_FLAG_THIS_THREAD);
		if (!r->registered || r == skip || r->signum != signum)
			continue;
		if (tid >= 0 ? !(thisthr && r->owner == tid) : thisthr)
			continue;
		if (r->flags & IV_SIGNAL_FLAG_EXCLUSIVE) {
			if (ex == NULL || (unsigned long)r->is < (unsigned long)ex->is)
				ex = r;
		} else {
			out[n++] = r;
		}
	}
	if (ex != NULL) {
		out[0] = ex;
		return 1;
	}
	return n;
}

/* The library serialises its walk of the process-wide set against (un)registration in
 * other threads with a lock that the harness cannot see inside; the ghost set is kept in
 * step by serialising the same two things one level up (every real execution orders the
 * walk entirely before or entirely after the set update). */
static int ghost_busy;

static int ghost_free(void *arg)
{
	return !ghost_busy;
}

static void ghost_lock(void)
{
	if (ghost_busy)
		sx_block_until(ghost_free, NULL, -1);
	ghost_busy = 1;
}

static void ghost_unlock(void)
{
	ghost_busy = 0;
}

static void on_delivery_done(int tid, int sig)
{
	ghost_unlock();
}

static void on_delivery(int tid, int sig)
{
	struct irec *e[MAXI];
	int n, i;

	ghost_lock();

	/* only deliveries handled by the library's handler count */
	n = expected_set(tid, sig, NULL, e);
	if (n == 0)
		n = expected_set(-1, sig, NULL, e);
	else
		sx_cover("signal.this-thread-interest-preferred");
	for (i = 0; i < n; i++) {
		e[i]->pending_wake = 1;
		e[i]->expected++;
		sx_note("expect", e[i]->id);
		if (e[i]->flags & IV_SIGNAL_FLAG_EXCLUSIVE)
			sx_cover("signal.exclusive-woken");
	}
	if (n > 1)
		sx_cover("signal.fan-out-to-several");
}

static void check_disposition(int signum)
{
	int i, cnt = 0;

	for (i = 0; i < nI; i++)
		if (I[i].registered && I[i].signum == signum)
			cnt++;
	if (cnt == 0)
		sx_assert(p_sigact[signum].handler == SIG_DFL, "C10.disposition-not-restored-after-last-unregister");
	else
		sx_assert(p_sigact[signum].handler != SIG_DFL && p_sigact[signum].handler != SIG_IGN,
			  "C10.library-handler-not-installed-while-interests-exist");
}

static void handler(void *c);

/* The ghost set must change atomically with the library's own set as far as signal
 * delivery is concerned: the library blocks all signals around its tree update, the
 * harness extends that window over its ghost update (a delivery inside the window is a
 * delivery just after it). */
static void block_all(sigset_t *old)
{
	sigset_t all;

	sigfillset(&all);
	pthread_sigmask(SIG_BLOCK, &all, old);
}

static void do_register(struct irec *r)
{
	struct iv_signal *is = slots[r->id];
	sigset_t old;

	block_all(&old);
	ghost_lock();

	memset(is, 0xAA, sizeof(*is));
	IV_SIGNAL_INIT(is);
	is->signum = r->signum;
	is->flags = r->flags;
	is->cookie = r;
	is->handler = handler;
	r->is = is;
	r->owner = sx_tid();
	sx_note("op:signal_register.flags", r->id * 10 + r->flags);
	sx_assert(iv_signal_register(is) == 0, "C10.register-failed");
	r->registered = 1;
	r->pending_wake = 0;
	r->expected = 0;
	r->runs = 0;
	check_disposition(r->signum);
	ghost_unlock();
	pthread_sigmask(SIG_SETMASK, &old, NULL);
}

static void do_unregister(struct irec *r)
{
	struct irec *e[MAXI];
	int n, i;
	sigset_t old;

	block_all(&old);
	ghost_lock();
	sx_note("op:signal_unregister", r->id);
	/* hand-off: an exclusive interest with an outstanding wake passes it to the next
	 * interest of its set (required).  A delivery that reached r between the library
	 * clearing its wake flag and r's handler starting is served by that handler run AND
	 * still counts as outstanding for the library: the duplicate hand-off is allowed. */
	if ((r->flags & IV_SIGNAL_FLAG_EXCLUSIVE) && (r->pending_wake || r->expected > 0)) {
		n = expected_set((r->flags & IV_SIGNAL_FLAG_THIS_THREAD) ? r->owner : -1, r->signum, r, e);
		for (i = 0; i < n; i++) {
			if (r->pending_wake) {
				e[i]->pending_wake = 1;
				sx_cover("signal.exclusive-handoff");
			}
			e[i]->expected++;
		}
	}
	iv_signal_unregister(r->is);
	r->registered = 0;
	r->pending_wake = 0;
	memset(r->is, 0x55, sizeof(*r->is));	/* the memory may be reused at once */
	r->is = NULL;
	check_disposition(r->signum);
	ghost_unlock();
	pthread_sigmask(SIG_SETMASK, &old, NULL);
}

static void handler(void *c)
{
	struct irec *r = c;
	int i, n, a;
	struct irec *cand[MAXI];

	sx_note("cb:signal", r->id);
	sx_assert(r->registered, "C01.signal-handler-after-unregister");
	sx_assert(sx_tid() == r->owner, "C10.handler-in-wrong-thread");
	/* runs may coalesce but never outnumber the deliveries that named this interest */
	r->runs++;
	sx_assert(r->runs <= r->expected, "C10.handler-without-delivery-for-this-interest");
	r->pending_wake = 0;
	sx_cover("signal.handler-ran");
	if (P_unreg && handler_ops > 0) {
		n = 0;
		for (i = 0; i < nI; i++)
			if (I[i].registered && I[i].owner == sx_tid())
				cand[n++] = &I[i];
		a = sx_choose(n + 1);
		if (a > 0) {
			handler_ops--;
			if (cand[a - 1] == r)
				sx_cover("signal.unregister-self-in-handler");
			do_unregister(cand[a - 1]);
		}
	}
}

static void *sender_main(void *arg)
{
	int d;

	p_sigmask[sx_tid()] = ~0UL;	/* the sender never receives */
	for (d = 0; d < nD; d++) {
		int sig = (int)sx_opt("twosigs", 0) && sx_choose(2) ? SIGB : SIGA;
		int how = nThreads > 1 ? sx_choose(3) : sx_choose(2);
		sx_sched();
		if (p_sigact[sig].handler == SIG_DFL)
			break;		/* nobody is interested any more: do not kill the process */
		if (how == 0) {
			sx_note("signal-to-process", sig);
			p_send_process_signal(sig);
		} else {
			sx_note("signal-to-thread", how - 1);
			p_send_thread_signal(loop_tid[how - 1], sig);
		}
	}
	senders_done++;
	if (senders_done == nsenders)
		p_signals_possible = 0;
	return NULL;
}

/* a thread that does not take part in signal handling (everything blocked) forks at some moment */
static int forker_done;

static void *forker_main(void *arg)
{
	unsigned long before;

	p_sigmask[sx_tid()] = ~0UL;
	before = p_sigmask[sx_tid()];
	sx_sched();
	if (fork() == 0)
		sx_end();	/* the child execs something else */
	sx_assert(p_sigmask[sx_tid()] == before, "C10.fork-changed-the-callers-signal-mask");
	forker_done = 1;
	return NULL;
}

static void *loop2_main(void *arg)
{
	int i;

	loop_tid[1] = sx_tid();
	iv_init();
	for (i = 0; i < nI; i++)
		if (I[i].owner == 1)
			do_register(&I[i]);
	iv_main();
	iv_deinit();
	return NULL;
}

void sx_on_quiescent(void)
{
	int i;

	sx_cover("signal.quiescent");
	sx_leak_check_unreachable();	/* C18: nothing the library allocated has been lost track of */
	sx_assert(senders_done == nsenders, "C10.sender-blocked");
	for (i = 0; i < nI; i++)
		if (I[i].registered)
			sx_assert(!I[i].pending_wake, "C10.delivery-not-followed-by-handler");
}

static int idle(struct kwait_info *wi)
{
	if (sx_nthreads() == 1 && !wi->has_timeout && !p_signal_possible()) {
		sx_on_quiescent();
		sx_end();
	}
	return 0;
}

void sx_main(void)
{
	pthread_t th;
	int i;
	static const int flagset[4] = { 0, IV_SIGNAL_FLAG_EXCLUSIVE, IV_SIGNAL_FLAG_THIS_THREAD,
					IV_SIGNAL_FLAG_EXCLUSIVE | IV_SIGNAL_FLAG_THIS_THREAD };

	nI = (int)sx_opt("I", 2);
	nThreads = (int)sx_opt("T", 1);
	nD = (int)sx_opt("D", 2);
	P_unreg = (int)sx_opt("unreg", 1);
	P_rev = (int)sx_opt("rev", 0);
	handler_ops = (int)sx_opt("ops", 1);
	nsenders = 1;
	k_idle_hook = idle;
	p_delivery_hook = on_delivery;
	k_order_choice = (int)sx_opt("order", 0);
	p_delivery_done_hook = on_delivery_done;
	p_signals_possible = 1;
	p_lock_deliveries = (int)sx_opt("lockdeliv", 1);	/* signals may arrive while a library lock is held */
	k_env_exclude = sx_opt("poll", 0) ? "epoll-timerfd epoll ppoll" : NULL;
	if (sx_opt("hb", 0))
		sx_hb_enable();
	/* interests live in one block so that their address order is controlled: rev flips it */
	{
		struct iv_signal *blk = malloc(sizeof(struct iv_signal) * MAXI);
		for (i = 0; i < MAXI; i++)
			slots[i] = &blk[P_rev ? MAXI - 1 - i : i];
	}
	loop_tid[0] = sx_tid();
	iv_init();
	for (i = 0; i < nI; i++) {
		I[i].id = i;
		I[i].flags = flagset[sx_choose((int)sx_opt("nflags", 4))];
		if ((int)sx_opt("twosigs", 0) == 2)
			I[i].signum = sx_choose(2) ? SIGB : SIGA;	/* any split of the interests over two signals */
		else
			I[i].signum = ((int)sx_opt("twosigs", 0) && i == nI - 1) ? SIGB : SIGA;
		I[i].owner = (nThreads > 1 && i == nI - 1) ? 1 : 0;
	}
	if (sx_opt("permute", 0)) {
		/* every order of registration (the interests sit at increasing addresses) */
		int left[MAXI], n = nI, k, c;

		for (i = 0; i < nI; i++)
			left[i] = i;
		while (n > 0) {
			c = n > 1 ? sx_choose(n) : 0;
			do_register(&I[left[c]]);
			for (k = c; k < n - 1; k++)
				left[k] = left[k + 1];
			n--;
		}
		sx_cover("signal.registration-order-permuted");
	} else
	for (i = 0; i < nI; i++)
		if (I[i].owner == 0)
			do_register(&I[i]);
	if (nThreads > 1)
		pthread_create(&th, NULL, loop2_main, NULL);
	if (sx_opt("forkers", 0)) {
		/* two threads with different signal masks fork at the same time */
		unsigned long before = p_sigmask[sx_tid()];
		pthread_t ft;

		pthread_create(&ft, NULL, forker_main, NULL);
		if (fork() == 0)
			sx_end();
		sx_assert(p_sigmask[sx_tid()] == before, "C10.fork-changed-the-callers-signal-mask");
		sx_cover("signal.concurrent-forks");
	}
	if (sx_opt("forkchild", 0)) {
		if (fork() == 0) {
			/* a signal in the child (before exec) must not reach the parent's interests; the
			 * child may go on using the library: it registers an interest of its own first */
			unsigned long before[KMAXOBJ], own = 0;
			static struct iv_signal mine;
			static struct irec minerec;
			int childuses = sx_choose(2);
			for (i = 0; i < KMAXOBJ; i++)
				before[i] = keventfds[i].used ? keventfds[i].counter : 0;
			if (childuses) {
				IV_SIGNAL_INIT(&mine);
				mine.signum = SIGA;
				mine.flags = 0;
				mine.cookie = &minerec;
				mine.handler = handler;
				sx_assert(iv_signal_register(&mine) == 0, "C10.register-in-child-failed");
				sx_cover("signal.child-registers-own-interest");
			}
			raise(SIGA);
			for (i = 0; i < KMAXOBJ; i++) {
				if (childuses && keventfds[i].used && kfds[mine.ev.event_rfd.fd].obj == i) {
					own = keventfds[i].counter;
					continue;
				}
				sx_assert(!keventfds[i].used || keventfds[i].counter == before[i],
					  "C10.child-signal-woke-parent-interest");
			}
			if (childuses)
				sx_assert(own > 0, "C10.child-own-interest-not-woken");
			sx_cover("signal.child-does-not-trigger-parent");
			sx_end();
		}
	}
	pthread_create(&th, NULL, sender_main, NULL);
	iv_main();
	/* every interest of this thread went away: iv_main may return */
	for (i = 0; i < nI; i++)
		sx_assert(!(I[i].registered && I[i].owner == 0), "C07.iv_main-returned-with-signal-interest");
	sx_cover("signal.loop-returned-after-last-unregister");
	sx_end();
}
