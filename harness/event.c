/* C08 (and C14 through the race monitor): iv_event across threads.
 * Owner thread runs iv_main with E events; P poster threads (plain pthreads,
 * no ivykis state) post Q times each to events chosen by forking; the owner's
 * handlers may post to themselves/others and register/unregister an extra
 * event.  All interleavings at the model's scheduling points within the
 * preemption bound are explored.  Liveness oracle at quiescence. */
#include <errno.h>
#include <pthread.h>
#include <stdlib.h>
#include <string.h>
#include <iv.h>
#include <iv_event.h>
#include "sx.h"
#include "kmodel.h"
#include "pmodel.h"

#define MAXE 40
#define MAXP 3

struct erec {
	struct iv_event *ev;
	int registered;
	int id;
	long post_begin;	/* sequence number of the start of the last post */
	long handler_begin;	/* sequence number of the last handler entry */
	int posts, handled;
};

static struct erec E[MAXE];
static int nE, nP, nQ, P_owner_acts;
static long seq;
static int owner_tid;
static pthread_t poster[MAXP];
static int posters_done;
static int owner_ops;
static struct iv_fd *xfd;		/* a descriptor of the owner that becomes ready together with a post */
static int xfd_kfd = -1, xfd_registered, xfd_calls, xfd_reused;

static void handler(void *c);

static struct iv_fd qfd[2];

static void quiet_in(void *c)
{
	sx_fail("C03.handler_in-for-descriptor-that-was-never-ready");
}

static void ev_register(struct erec *r)
{
	struct iv_event *ev = malloc(sizeof(*ev));

	memset(ev, 0xAA, sizeof(*ev));
	IV_EVENT_INIT(ev);
	ev->cookie = r;
	ev->handler = handler;
	r->ev = ev;
	sx_assert(iv_event_register(ev) == 0, "C08.event-register-failed");
	r->registered = 1;
	r->post_begin = r->handler_begin = 0;
}

static void ev_unregister(struct erec *r)
{
	iv_event_unregister(r->ev);
	r->registered = 0;
	free(r->ev);
	r->ev = NULL;
}

static void post(struct erec *r)
{
	r->post_begin = ++seq;
	r->posts++;
	iv_event_post(r->ev);
}

static void xfd_in(void *c)
{
	sx_assert(xfd_registered, "C01.fd-handler-after-unregister");
	sx_assert(kfds[xfd_kfd].rd, "C03.handler_in-for-descriptor-that-was-never-ready");
	xfd_calls++;
	kfds[xfd_kfd].rd = 0;	/* the data is consumed */
	sx_cover("event.fd-in-same-batch-handled");
}

static void handler(void *c)
{
	struct erec *r = c;
	int a;

	if (xfd_registered && sx_opt("withfd", 0) == 3 && !xfd_reused && sx_choose(2)) {
		/* C03: the connection is replaced: same struct, new descriptor on which nothing ever arrives */
		sx_cover("event.handler-reuses-fd-struct-of-same-batch");
		iv_fd_unregister(xfd);
		xfd_kfd = k_new_generic();
		xfd_reused = 1;
		IV_FD_INIT(xfd);
		xfd->fd = xfd_kfd;
		xfd->cookie = xfd;
		xfd->handler_in = xfd_in;
		iv_fd_register(xfd);
	}
	if (xfd_registered && sx_opt("withfd", 0) == 2 && sx_choose(2)) {
		/* C01: the descriptor's event may already be collected in this iteration */
		sx_cover("event.handler-unregisters-fd-of-same-batch");
		iv_fd_unregister(xfd);
		free(xfd);
		xfd = NULL;
		xfd_registered = 0;
	}

	sx_note("cb:event", r->id);
	sx_assert(sx_tid() == owner_tid, "C08.handler-in-wrong-thread");
	sx_assert(r->registered, "C01.event-handler-after-unregister");
	r->handled++;
	r->handler_begin = ++seq;
	sx_assert(r->handled <= r->posts, "C08.more-handler-runs-than-posts");
	sx_cover("event.handler-ran");
	if (P_owner_acts == 2 && owner_ops > 0 && sx_choose(2)) {
		/* C01: unregister (and free) this event or a sibling from inside the handler; a
		 * sibling may already be collected for dispatch in the same run of pending events */
		struct erec *v = (nE > 1 && sx_choose(2)) ? &E[(r->id + 1) % nE] : r;
		owner_ops--;
		if (v->registered) {
			sx_cover(v == r ? "event.unregister-self-in-handler" : "event.unregister-sibling-in-handler");
			ev_unregister(v);
		}
		return;
	}
	if (P_owner_acts == 1 && owner_ops > 0) {
		/* owner-side activity from inside a handler */
		a = sx_choose(4);
		if (a)
			owner_ops--;
		if (a == 1) {
			sx_cover("event.owner-posts-from-handler");
			post(r);
		} else if (a == 2 && nE < MAXE) {
			struct erec *x = &E[MAXE - 1];
			if (!x->registered) {
				x->id = MAXE - 1;
				ev_register(x);
				sx_cover("event.owner-registers-extra");
			} else {
				ev_unregister(x);
				sx_cover("event.owner-unregisters-extra");
			}
		} else if (a == 3 && nE > 1) {
			struct erec *o = &E[(r->id + 1) % nE];
			if (o->registered) {
				sx_cover("event.owner-posts-other");
				post(o);
			}
		}
	}
}

static void *poster_main(void *arg)
{
	int q;

	for (q = 0; q < nQ; q++) {
		int e = nE > 1 ? sx_choose(nE) : 0;
		if (sx_opt("preops", 0) && nE > 1)
			e = nE > 2 ? 1 + sx_choose(nE - 1) : 1;
		sx_note("post", e);
		post(&E[e]);
		if (xfd_kfd >= 0 && !xfd_reused)
			kfds[xfd_kfd].rd = 1;	/* data arrives on the owner's descriptor right after the post */
	}
	posters_done++;
	return NULL;
}

/* all threads blocked, nothing can happen any more */
void sx_on_quiescent(void)
{
	int i;

	sx_cover("event.quiescent");
	sx_leak_check_unreachable();	/* C18: nothing the library allocated has been lost track of */
	sx_assert(posters_done == nP, "C08.poster-blocked");
	for (i = 0; i < MAXE; i++) {
		if (!E[i].registered)
			continue;
		if (P_owner_acts == 2)
			continue;	/* posts to events that were being unregistered are not tracked */
		/* every post is followed by a handler run that began after the post began */
		sx_assert(E[i].post_begin == 0 || E[i].handler_begin > E[i].post_begin,
			  "C08.undelivered-post-owner-asleep");
	}
	if (nP > 0)
		sx_cover("event.cross-thread-post-delivered");
}

/* single remaining thread about to sleep for ever: same thing */
static int idle(struct kwait_info *wi)
{
	if (sx_nthreads() == 1 && !wi->has_timeout) {
		sx_on_quiescent();
		sx_end();
	}
	return 0;
}

void sx_main(void)
{
	int i, m;

	nE = (int)sx_opt("E", 2);
	nP = (int)sx_opt("P", 2);
	nQ = (int)sx_opt("Q", 1);
	P_owner_acts = (int)sx_opt("owner", 0);
	owner_ops = (int)sx_opt("ops", 1);
	m = (int)sx_opt("method", 0);
	k_env_exclude = m == 0 ? NULL : m == 1 ? "epoll-timerfd" : m == 2 ? "epoll-timerfd epoll"
									: "epoll-timerfd epoll ppoll";
	k_idle_hook = idle;
	if (sx_opt("noeventfd", 0)) {
		k_sys_mode[KSYS_EVENTFD2] = 1;
		k_sys_mode[KSYS_EVENTFD] = 1;
	}
	if (sx_opt("hb", 1))
		sx_hb_enable();
	owner_tid = sx_tid();
	iv_init();
	if (sx_opt("regfail", 0)) {
		/* C07: a registration that reports failure leaves the loop exactly as it was */
		struct iv_event *ev = malloc(sizeof(*ev));
		int ret, save = k_fd_limit;

		IV_EVENT_INIT(ev);
		ev->handler = handler;
		ev->cookie = &E[0];
		k_fd_limit = 3;		/* no descriptor can be created now (EMFILE) */
		ret = iv_event_register(ev);
		k_fd_limit = save;
		sx_assert(ret != 0, "harness.event-register-did-not-fail");
		sx_cover("C07.event-register-fails");
		free(ev);
		if (sx_opt("regfail", 0) == 2)
			goto carry_on;	/* the application goes on and registers its events once descriptors are available */
		k_idle_hook = NULL;
		/* nothing is registered: iv_main must return at once instead of sleeping for ever */
		iv_main();
		sx_cover("C07.loop-returns-after-failed-registration");
		iv_deinit();
		sx_assert(k_count_open(1) == 0, "C18.descriptor-leak-after-deinit");
		sx_leak_check(0);
		return;
	}
carry_on:
	if (sx_opt("twofds", 0)) {
		/* two quiet descriptors of the owner are registered before its first event (with the raw-event
		 * transport the wake-up descriptor comes after them in the poll table) */
		for (i = 0; i < 2; i++) {
			IV_FD_INIT(&qfd[i]);
			qfd[i].fd = k_new_generic();
			qfd[i].cookie = &qfd[i];
			qfd[i].handler_in = quiet_in;
			iv_fd_register(&qfd[i]);
		}
	}
	for (i = 0; i < nE; i++) {
		E[i].id = i;
		ev_register(&E[i]);
	}
	if (sx_opt("twofds", 0)) {
		/* ordinary loop activity of the owner: one of them goes away again */
		int c = sx_choose(3);
		if (c < 2) {
			sx_cover("event.owner-unregisters-a-descriptor");
			iv_fd_unregister(&qfd[c]);
		}
	}
	if (sx_opt("withfd", 0)) {
		xfd = malloc(sizeof(*xfd));
		IV_FD_INIT(xfd);
		xfd_kfd = k_new_generic();
		xfd->fd = xfd_kfd;
		xfd->cookie = xfd;
		xfd->handler_in = xfd_in;
		iv_fd_register(xfd);
		xfd_registered = 1;
		k_order_choice = 1;
	}
	for (i = 0; i < nP; i++)
		pthread_create(&poster[i], NULL, poster_main, NULL);
	if (sx_opt("selfpost", 0)) {
		sx_cover("event.owner-posts-before-main");
		post(&E[0]);
		if (P_owner_acts == 2 || sx_opt("selfpost", 0) == 2)
			for (i = 1; i < nE; i++)
				post(&E[i]);	/* all collected for the same dispatch run */
	}
	if (sx_opt("preops", 0)) {
		/* the owner posts to and unregisters its events before its loop gets to run them */
		int n = (int)sx_opt("preops", 0), k;

		for (k = 0; k < n; k++) {
			/* only event 0 is ever unregistered here; the posters leave it alone */
			int c = sx_choose(2 + nE);
			if (c == 0)
				break;
			if (c <= nE) {
				if (E[c - 1].registered) {
					sx_note("op:owner-post", c - 1);
					post(&E[c - 1]);
				}
			} else if (E[0].registered) {
				sx_note("op:owner-unregister", 0);
				if (E[0].post_begin > E[0].handler_begin)
					sx_cover("event.unregister-while-pending");
				ev_unregister(&E[0]);
			}
		}
	}
	iv_main();
	if (P_owner_acts == 2 || sx_opt("preops", 0)) {
		/* the handlers unregistered every event: the loop is right to return */
		for (i = 0; i < MAXE; i++)
			sx_assert(!E[i].registered, "C07.iv_main-returned-with-events-registered");
		iv_deinit();
		sx_leak_check(0);
		sx_end();
	}
	sx_fail("C07.iv_main-returned-with-events-registered");
}
