/* C11: iv_wait.  Children with and without interests change state (stopped,
 * continued, exited with an unknown code, killed) at moments chosen by a
 * "world" thread; interests are registered (plain or spawn), unregistered
 * (also from the handler) and used for iv_wait_interest_kill. */
#include <errno.h>
#include <pthread.h>
#include <signal.h>
#include <stdlib.h>
#include <string.h>
#include <sys/wait.h>
#include <iv.h>
#include <iv_wait.h>
#include "sx.h"
#include "kmodel.h"
#include "pmodel.h"

#define MAXC 4
#define MAXS 8

struct crec {
	int pid;
	int alive;			/* has not terminated yet */
	int stopped;
	struct iv_wait_interest *wi;	/* interest, or NULL for a stranger */
	int registered;
	int id;
	long reaped[MAXS];		/* statuses wait4 handed to the library while the interest was registered */
	int nreaped;
	int ndelivered;
	int term_delivered;
	int owner;
	int spawned;
};

static struct crec C[MAXC];
static int nC, nEvents, P_unreg, P_kill;
static int world_done;
static int P_quickexit;
static int handler_ops;

static struct crec *by_pid(int pid)
{
	int i;

	for (i = 0; i < nC; i++)
		if (C[i].pid == pid)
			return &C[i];
	return NULL;
}

static void on_reap(int pid, int status)
{
	struct crec *c = by_pid(pid);

	if (c == NULL)
		return;
	if (c->registered) {
		sx_assert(c->nreaped < MAXS, "harness.too-many-statuses");
		c->reaped[c->nreaped++] = status;
	} else {
		sx_cover("wait.stranger-reaped");
	}
}

static void on_kill(int pid, int sig)
{
	struct crec *c = by_pid(pid);

	sx_assert(c != NULL, "C11.kill-of-unknown-pid");
	/* the kill helper never signals a pid whose termination has already been reaped */
	if (c != NULL) {
		int i;
		for (i = 0; i < p_nchildren; i++)
			if (p_children[i].pid == pid)
				sx_assert(!p_children[i].reaped, "C11.kill-after-termination-was-reaped");
	}
	sx_cover("wait.kill-forwarded");
}

static void do_unregister(struct crec *c)
{
	sx_note("op:wait_unregister", c->id);
	iv_wait_interest_unregister(c->wi);
	c->registered = 0;
	free(c->wi);
	c->wi = NULL;
}

static void handler(void *cookie, int status, const struct rusage *ru)
{
	struct crec *c = cookie;

	sx_note("cb:wait", c->id);
	sx_assert(c->registered, "C01.wait-handler-after-unregister");
	sx_assert(sx_tid() == c->owner, "C11.handler-in-wrong-thread");
	sx_assert(!c->term_delivered, "C11.status-delivered-after-termination");
	/* in order, exactly the statuses that were reaped for this pid */
	sx_assert(c->ndelivered < c->nreaped, "C11.status-delivered-that-was-never-reaped");
	if (c->ndelivered < c->nreaped)
		sx_assert(c->reaped[c->ndelivered] == status, "C11.status-out-of-order-or-altered");
	c->ndelivered++;
	if (c->nreaped - c->ndelivered >= 1)
		sx_cover("wait.batch-of-several-statuses");	/* more statuses of this pid are queued behind this one */
	if (WIFEXITED(status) || WIFSIGNALED(status)) {
		c->term_delivered = 1;
		sx_cover("wait.termination-delivered");
		if (WIFEXITED(status))
			sx_cover("wait.exit-code-delivered");
	} else {
		sx_cover("wait.stop-or-continue-delivered");
	}
	if (P_kill && handler_ops > 0 && sx_choose(2)) {
		handler_ops--;
		iv_wait_interest_kill(c->wi, SIGTERM);
	}
	if (P_unreg && handler_ops > 0) {
		/* unregister this interest or another one of this thread, from inside the handler */
		struct crec *cand[MAXC + 1];
		int n = 0, i, a;

		for (i = 0; i < nC; i++)
			if (C[i].registered && C[i].owner == sx_tid())
				cand[n++] = &C[i];
		a = sx_choose(n + 1);
		if (a > 0) {
			handler_ops--;
			if (cand[a - 1] == c)
				sx_cover("wait.unregister-in-handler");
			else
				sx_cover("wait.unregister-other-in-handler");
			do_unregister(cand[a - 1]);
		}
	}
}

static void spawn_fn(void *cookie)
{
	/* runs in the child copy of the world */
	sx_cover("wait.spawn-child-ran");
}

static void do_register(struct crec *c, int spawn)
{
	struct iv_wait_interest *wi = malloc(sizeof(*wi));

	memset(wi, 0xAA, sizeof(*wi));
	IV_WAIT_INTEREST_INIT(wi);
	wi->cookie = c;
	wi->handler = handler;
	c->wi = wi;
	c->owner = sx_tid();
	c->nreaped = c->ndelivered = c->term_delivered = 0;
	if (spawn) {
		int before = p_nchildren;
		c->registered = 1;	/* the child may die at once: its status must still arrive */
		sx_assert(iv_wait_interest_register_spawn(wi, spawn_fn, c) == 0, "C11.register_spawn-failed");
		sx_assert(p_nchildren == before + 1, "C11.spawn-did-not-fork");
		c->pid = wi->pid;
		c->alive = !P_quickexit;
		c->spawned = 1;
	} else {
		wi->pid = c->pid;
		iv_wait_interest_register(wi);
		c->registered = 1;
	}
}

int sxh_all_reports_collected(void *arg)
{
	int i;

	for (i = 0; i < p_nchildren; i++)
		if (p_children[i].exists && p_children[i].has_report)
			return 0;
	return 1;
}

/* the outside world: children change state */
static void *world_main(void *arg)
{
	int e;

	p_sigmask[sx_tid()] = ~0UL;
	if (sx_opt("twoloops", 0) == 2) {
		extern int sxh_loop3_ready(void *);
		if (!sxh_loop3_ready(NULL))
			sx_block_until(sxh_loop3_ready, NULL, -1);
	}
	for (e = 0; e < nEvents; e++) {
		struct crec *cand[MAXC];
		int n = 0, i, kind;
		struct crec *c;

		sx_sched();
		if (e > 0 && sx_opt("worldwait", 0)) {
			/* the next state change comes only after the previous one has been collected */
			extern int sxh_all_reports_collected(void *);
			if (!sxh_all_reports_collected(NULL))
				sx_block_until(sxh_all_reports_collected, NULL, -1);
		}
		for (i = 0; i < nC; i++)
			if (C[i].alive && C[i].pid)
				cand[n++] = &C[i];
		if (n == 0)
			break;
		c = cand[n > 1 ? sx_choose(n) : 0];
		kind = sx_choose(c->stopped ? 3 : 3);
		if (kind == 0) {
			long code = sx_long("exit.code", 0, 255);
			sx_note("world:exit", c->id);
			c->alive = 0;
			p_child_report(c->pid, (int)(code << 8));
		} else if (kind == 1) {
			sx_note("world:killed", c->id);
			c->alive = 0;
			p_child_report(c->pid, P_STATUS_SIGNALED(SIGKILL));
		} else if (!c->stopped) {
			sx_note("world:stopped", c->id);
			c->stopped = 1;
			p_child_report(c->pid, P_STATUS_STOPPED(SIGSTOP));
		} else {
			sx_note("world:continued", c->id);
			c->stopped = 0;
			p_child_report(c->pid, P_STATUS_CONTINUED);
		}
	}
	world_done = 1;
	p_signals_possible = 0;
	return NULL;
}

/* in the parent, right after the child exists (still inside fork()): the child may be gone already */
static void on_child(int pid)
{
	if (P_quickexit) {
		sx_cover("wait.spawned-child-exits-at-once");
		p_child_report(pid, P_STATUS_EXITED(7));
	}
}

static void *loop2_main(void *arg)
{
	struct crec *c = arg;

	iv_init();
	do_register(c, 1);
	iv_main();
	iv_deinit();
	return NULL;
}

/* second loop thread that owns all the watched interests; the main thread (whose SIGCHLD interest is the
 * one that gets woken) does the reaping, so several statuses can queue up on one interest */
static int n_for_loop3;
static int loop3_ready;	/* interests for children that exist already are in place (a child that changed state before
			 * its interest was registered is outside the property: that is what register_spawn is for) */

int sxh_loop3_ready(void *arg)
{
	return loop3_ready;
}

/* the owner gives up an interest on its own initiative, at a moment unrelated to the child's fate */
static void spont_fn(void *c)
{
	struct crec *v = c;

	if (v->registered && sx_opt("spontkill", 0)) {
		/* the owner signals its child on its own while the reaping thread may be collecting that child */
		sx_cover("wait.spontaneous-kill");
		sx_note("op:wait_interest_kill", v->id);
		iv_wait_interest_kill(v->wi, SIGTERM);
		return;
	}
	if (v->registered) {
		sx_cover("wait.spontaneous-unregister");
		do_unregister(v);
	}
}

static void *loop3_main(void *arg)
{
	static struct iv_timer spont;
	int i;

	iv_init();
	for (i = 0; i < n_for_loop3; i++)
		do_register(&C[i], 0);
	loop3_ready = 1;
	if (sx_opt("spont", -1) >= 0) {
		IV_TIMER_INIT(&spont);
		spont.cookie = &C[sx_opt("spont", -1)];
		spont.handler = spont_fn;
		spont.expires.tv_sec = 0;
		spont.expires.tv_nsec = 0;
		iv_timer_register(&spont);
	}
	iv_main();
	iv_deinit();
	return NULL;
}

void sx_on_quiescent(void)
{
	int i, j;

	sx_cover("wait.quiescent");
	sx_leak_check_unreachable();	/* C18: nothing the library allocated has been lost track of */
	/* a child spawned through the library is never missed, however quickly it exits */
	for (i = 0; i < nC; i++) {
		if (!C[i].spawned || !C[i].registered)
			continue;
		for (j = 0; j < p_nchildren; j++)
			if (p_children[j].pid == C[i].pid && p_children[j].reaped)
				sx_assert(C[i].term_delivered, "C11.spawned-child-termination-missed");
	}
	sx_assert(world_done, "C11.world-blocked");
	for (i = 0; i < nC; i++) {
		if (C[i].registered)
			sx_assert(C[i].ndelivered == C[i].nreaped, "C11.reaped-status-not-delivered");
	}
	/* nothing left to reap: no zombie remains */
	for (i = 0; i < p_nchildren; i++)
		sx_assert(!(p_children[i].terminated && !p_children[i].reaped), "C11.zombie-left");
}

static int idle(struct kwait_info *wi)
{
	if (sx_nthreads() == 1 && !wi->has_timeout && !p_signal_possible()) {
		sx_on_quiescent();
		sx_end();
	}
	return 0;
}

void sx_main(void)
{
	pthread_t th;
	int i, nstr;

	nC = (int)sx_opt("C", 2);
	nstr = (int)sx_opt("strangers", 1);
	nEvents = (int)sx_opt("events", 3);
	P_unreg = (int)sx_opt("unreg", 1);
	P_kill = (int)sx_opt("kill", 0);
	handler_ops = (int)sx_opt("ops", 1);
	k_idle_hook = idle;
	p_reap_hook = on_reap;
	p_kill_hook = on_kill;
	p_signals_possible = 1;
	p_opt_deliveries = 1;
	k_env_exclude = sx_opt("poll", 0) ? "epoll-timerfd epoll ppoll" : NULL;
	if (sx_opt("hb", 0))
		sx_hb_enable();
	iv_init();
	if (sx_opt("twoloops", 0) == 2) {
		pthread_t t3;

		for (i = 0; i < nC; i++) {
			C[i].id = i;
			C[i].pid = p_new_child();
			C[i].alive = 1;
		}
		/* the last child is watched by this thread, the others by the second loop */
		n_for_loop3 = nC - 1;
		do_register(&C[nC - 1], 0);
		pthread_create(&t3, NULL, loop3_main, NULL);
		sx_cover("wait.reaper-is-another-thread");
	} else
	for (i = 0; i < nC; i++) {
		C[i].id = i;
		/* strangers are the youngest children, or (strangerfirst) the oldest: the kernel hands out
		 * pending statuses oldest child first */
		if (sx_opt("strangerfirst", 0) ? i >= nstr : i < nC - nstr) {
			if (sx_opt("spawn", 0) && i == (sx_opt("strangerfirst", 0) ? nstr : 0)) {
				do_register(&C[i], 1);
			} else {
				C[i].pid = p_new_child();
				C[i].alive = 1;
				do_register(&C[i], 0);
			}
		} else {
			/* a child the application forked itself and never told the library about */
			C[i].pid = p_new_child();
			C[i].alive = 1;
		}
	}
	if (sx_opt("twoloops", 0) == 1) {
		/* a second loop thread spawns a child that exits at once; this thread holds another interest */
		pthread_t t2;
		P_quickexit = 1;
		p_child_hook = on_child;
		C[nC].id = nC;
		nC++;
		pthread_create(&t2, NULL, loop2_main, &C[nC - 1]);
		sx_cover("wait.two-loop-threads");
	}
	pthread_create(&th, NULL, world_main, NULL);
	iv_main();
	for (i = 0; i < nC; i++)
		sx_assert(!(C[i].registered && C[i].owner == sx_tid()), "C07.iv_main-returned-with-wait-interest");
	sx_cover("wait.loop-returned-after-last-unregister");
	if (sx_opt("twoloops", 0) == 2) {
		/* this thread is done with child processes; the other loop goes on and must from now on be told
		 * about its children itself */
		extern int sxh_never(void *);
		iv_deinit();
		sx_cover("wait.reaping-thread-left");
		sx_block_until(sxh_never, NULL, -1);
	}
	sx_end();
}

int sxh_never(void *arg)
{
	return 0;
}
