/* C19: iv_popen.  fork() duplicates the world: the child copy runs
 * iv_popen_child up to execvp, where its descriptor table is inspected; the
 * parent copy goes on with a forked plan for the child's behaviour and for the
 * moment of iv_popen_request_close, virtual time crossing the 5 s steps. */
#include <errno.h>
#include <pthread.h>
#include <signal.h>
#include <stdlib.h>
#include <string.h>
#include <sys/wait.h>
#include <iv.h>
#include <iv_popen.h>
#include <iv_wait.h>
#include "sx.h"
#include "kmodel.h"
#include "pmodel.h"

static struct iv_popen_request *req;
static int for_read;
static int child_pid;
static int child_alive;
static int plan;		/* 0 exits at once, 1..5 exits on that SIGTERM, 6 only SIGKILL kills it,
				 * 7 exits by itself between two signals */
static int nterm, nkill;
static long last_kill_sec = -1;
static long close_sec = -1;
static int closed;
static int data_fd = -1;
static int pipe_obj = -1;
static struct iv_timer world_timer, close_timer;
static int close_when;		/* 0 right after submit, 1 after 2 s, 2 after the child died */

static void child_dies(int status)
{
	if (!child_alive)
		return;
	child_alive = 0;
	p_child_report(child_pid, status);
}

static void on_kill(int pid, int sig)
{
	int i;

	sx_note("kill", sig);
	sx_assert(pid == child_pid, "C19.kill-of-foreign-pid");
	sx_assert(closed, "C19.child-signalled-before-close");
	for (i = 0; i < p_nchildren; i++)
		if (p_children[i].pid == pid)
			sx_assert(!p_children[i].reaped, "C19.signal-after-child-was-reaped");
	/* termination requests first (at most five), then the unconditional kill */
	if (sig == SIGTERM) {
		nterm++;
		sx_assert(nkill == 0, "C19.sigterm-after-sigkill");
		sx_assert(nterm <= 5, "C19.more-than-five-sigterm");
	} else {
		sx_assert(sig == SIGKILL, "C19.unexpected-signal");
		sx_assert(nterm == 5, "C19.sigkill-before-five-sigterm");
		nkill++;
		sx_cover("popen.escalated-to-sigkill");
	}
	/* one per five seconds, the first one at the next loop iteration after the close */
	if (last_kill_sec < 0)
		sx_assert(k_now.sec == close_sec, "C19.first-signal-not-right-after-close");
	else
		sx_assert(k_now.sec - last_kill_sec >= 5, "C19.signals-closer-than-five-seconds");
	last_kill_sec = k_now.sec;
	if (!child_alive)
		sx_cover("popen.signal-to-dead-but-unreaped-child");
	if (sig == SIGKILL || (plan >= 1 && plan <= 5 && nterm == plan)) {
		sx_cover("popen.child-dies-from-signal");
		child_dies(P_STATUS_SIGNALED(sig));
	}
}

/* child copy of the world, at execvp: standard streams wired as documented */
static void on_exec(const char *file)
{
	int i, ends = 0;

	sx_cover("popen.child-reached-exec");
	if (for_read) {
		sx_assert(kfds[1].kind == K_PIPE_W && kfds[1].obj == pipe_obj, "C19.stdout-not-the-pipe");
		sx_assert(kfds[0].kind == K_NULL && kfds[2].kind == K_NULL, "C19.other-streams-not-devnull");
	} else {
		sx_assert(kfds[0].kind == K_PIPE_R && kfds[0].obj == pipe_obj, "C19.stdin-not-the-pipe");
		sx_assert(kfds[1].kind == K_NULL && kfds[2].kind == K_NULL, "C19.other-streams-not-devnull");
	}
	/* no stray copy of either pipe end, no stray /dev/null */
	for (i = 3; i < KMAXFD; i++) {
		if (kfds[i].kind == K_PIPE_R || kfds[i].kind == K_PIPE_W)
			if (kfds[i].obj == pipe_obj && !kfds[i].cloexec)
				ends++;
		sx_assert(kfds[i].kind != K_NULL, "C19.devnull-left-open-in-child");
	}
	sx_assert(ends == 0, "C19.pipe-end-leaked-into-child");
}

/* the reaper ran: handling it may have taken a while (slow machine, long callback): the next
 * look at the clock can be past the next signalling tick */
static void on_reap(int pid, int status)
{
	if (sx_choose(2)) {
		sx_cover("popen.time-passes-after-reaping");
		k_now.sec += 5;
	}
}

static void do_close(void)
{
	sx_note("op:popen_close", 0);
	closed = 1;
	close_sec = k_now.sec;
	iv_popen_request_close(req);
	close(data_fd);
	free(req);
	req = NULL;
}

static void close_timer_fn(void *c)
{
	do_close();
}

static void world_timer_fn(void *c)
{
	/* the child ends by itself */
	sx_cover("popen.child-exits-between-signals");
	child_dies(P_STATUS_EXITED(3));
}

void sxh_stop_child(void *c)
{
	if (child_alive) {
		sx_cover("popen.child-stopped");
		p_child_report(child_pid, P_STATUS_STOPPED(SIGSTOP));
	}
}

void sxh_cont_child(void *c)
{
	if (child_alive) {
		sx_cover("popen.child-continued");
		p_child_report(child_pid, P_STATUS_CONTINUED);
	}
}

void sx_on_quiescent(void)
{
	sx_fail("C19.loop-stuck-child-not-terminated-or-objects-not-released");
}

static int watcher;

/* still inside fork(), in the parent: a child that exits at once is gone before fork() returns */
static void on_child(int pid)
{
	if (watcher && plan == 0) {
		sx_cover("popen.child-exits-at-once");
		child_pid = pid;
		child_alive = 1;
		child_dies(P_STATUS_EXITED(0));
	}
}

static void stranger_handler(void *cookie, int status, const struct rusage *ru)
{
	sx_fail("harness.stranger-child-never-changes-state");
}

static void scenario(void);

static void *scenario_thread(void *arg)
{
	scenario();
	sx_end();
	return NULL;
}

void sx_main(void)
{
	for_read = (int)sx_opt("read", 1);
	watcher = (int)sx_opt("watcher", 0);
	plan = watcher ? sx_choose(2) : sx_choose(9);	/* 8: stopped and continued before the close, then only SIGKILL ends it */
	close_when = sx_choose(3);
	p_kill_hook = on_kill;
	p_exec_hook = on_exec;
	p_reap_hook = on_reap;
	p_child_hook = on_child;
	p_signals_possible = 1;
	p_opt_deliveries = 1;
	k_env_exclude = sx_opt("poll", 0) ? "epoll-timerfd epoll ppoll" : NULL;
	/* descriptors 0,1,2 exist in the process */
	kfds[0].kind = kfds[1].kind = kfds[2].kind = K_GENERIC;
	if (watcher) {
		/* another loop thread of the process watches a child of its own: its SIGCHLD interest is the
		 * one that gets woken, so the reaping happens in that thread, not in the one that uses popen */
		static struct iv_wait_interest wi;
		pthread_t t;

		iv_init();
		IV_WAIT_INTEREST_INIT(&wi);
		wi.pid = p_new_child();
		wi.handler = stranger_handler;
		iv_wait_interest_register(&wi);
		pthread_create(&t, NULL, scenario_thread, NULL);
		sx_cover("popen.reaper-is-another-thread");
		iv_main();
		sx_fail("C07.iv_main-returned-with-wait-interest");
	}
	scenario();
}

static void scenario(void)
{
	static char *argv[2] = { "prog", NULL };
	int i;

	iv_init();

	req = malloc(sizeof(*req));
	memset(req, 0xAA, sizeof(*req));
	IV_POPEN_REQUEST_INIT(req);
	req->file = "prog";
	req->argv = argv;
	req->type = for_read ? "r" : "w";
	/* remember which pipe object the library creates */
	for (i = 0; i < KMAXOBJ; i++)
		if (!kpipes[i].used)
			break;
	pipe_obj = i;
	data_fd = iv_popen_request_submit(req);
	sx_assert(data_fd >= 0, "C19.submit-failed");
	if (!(watcher && plan == 0)) {
		child_pid = p_children[p_nchildren - 1].pid;
		child_alive = 1;
	}
	/* parent side: our end of the pipe, the other end closed here */
	sx_assert(kfds[data_fd].kind == (for_read ? K_PIPE_R : K_PIPE_W) && kfds[data_fd].obj == pipe_obj,
		  "C19.returned-descriptor-not-our-pipe-end");
	for (i = 0; i < KMAXFD; i++)
		if (i != data_fd && (kfds[i].kind == K_PIPE_R || kfds[i].kind == K_PIPE_W) && kfds[i].obj == pipe_obj)
			sx_fail("C19.child-end-left-open-in-parent");

	if (plan == 0 && !watcher) {
		sx_cover("popen.child-exits-at-once");
		child_dies(P_STATUS_EXITED(0));
	}
	if (plan == 8) {
		/* job control: the child is stopped and continued while the request is open */
		static struct iv_timer stop_t, cont_t;
		extern void sxh_stop_child(void *), sxh_cont_child(void *);
		IV_TIMER_INIT(&stop_t);
		stop_t.expires.tv_sec = k_now.sec;
		stop_t.expires.tv_nsec = 300000000;
		stop_t.handler = sxh_stop_child;
		iv_timer_register(&stop_t);
		IV_TIMER_INIT(&cont_t);
		cont_t.expires.tv_sec = k_now.sec;
		cont_t.expires.tv_nsec = 600000000;
		cont_t.handler = sxh_cont_child;
		iv_timer_register(&cont_t);
	}
	if (plan == 7) {
		IV_TIMER_INIT(&world_timer);
		world_timer.expires.tv_sec = k_now.sec + 7;
		world_timer.expires.tv_nsec = 0;
		world_timer.handler = world_timer_fn;
		iv_timer_register(&world_timer);
	}
	if (close_when == 0) {
		do_close();
	} else {
		IV_TIMER_INIT(&close_timer);
		close_timer.expires.tv_sec = k_now.sec + (close_when == 1 ? 2 : 40);
		close_timer.expires.tv_nsec = 0;
		close_timer.handler = close_timer_fn;
		iv_timer_register(&close_timer);
	}
	iv_main();
	/* everything used for the child was released, or the loop could not have returned */
	sx_assert(closed, "C19.loop-returned-before-close");
	if (plan == 6 || (plan >= 1 && plan <= 5) )
		if (close_when != 2 || 1)
			(void)0;
	for (i = 0; i < p_nchildren; i++)
		sx_assert(!(p_children[i].terminated && !p_children[i].reaped), "C19.zombie-left");
	sx_assert(!child_alive || 0, "C19.loop-returned-with-child-running");
	iv_deinit();
	if (!watcher) {
		sx_leak_check(0);
		sx_assert(k_count_open(1) == 0, "C18.descriptor-leak-after-deinit");
	}
	sx_cover("popen.complete-run");
}
