/* C09: iv_event_raw posted from the owner, from other threads, from a signal
 * handler and from a "forked child" (modelled as a thread that only posts:
 * the child shares nothing but the kernel object).  Bursts against a small
 * pipe capacity; eventfd2 / old eventfd / pipe fallback. */
#include <errno.h>
#include <pthread.h>
#include <signal.h>
#include <stdlib.h>
#include <string.h>
#include <iv.h>
#include <iv_event_raw.h>
#include "sx.h"
#include "kmodel.h"
#include "pmodel.h"

#define MAXR 2

struct rrec {
	struct iv_event_raw *ev;
	int registered;
	int id;
	long post_begin, handler_begin;
	int posts, handled;
};

static struct rrec R[MAXR];
static int nR, nT, nN, nS, P_handler_posts;
static long seq;
static int owner_tid;
static int posters_done;
static int sig_posts_left;

static void post(struct rrec *r)
{
	r->post_begin = ++seq;
	r->posts++;
	iv_event_raw_post(r->ev);
}

static void handler(void *c)
{
	struct rrec *r = c;

	sx_note("cb:raw", r->id);
	sx_assert(sx_tid() == owner_tid, "C09.handler-in-wrong-thread");
	sx_assert(r->registered, "C01.raw-event-handler-after-unregister");
	r->handled++;
	r->handler_begin = ++seq;
	sx_cover("raw.handler-ran");
	if (sx_opt("unreg", 0) && sx_choose(2)) {
		/* C01: unregister and free from inside the handler */
		sx_cover("raw.unregister-in-handler");
		iv_event_raw_unregister(r->ev);
		r->registered = 0;
		free(r->ev);
		r->ev = NULL;
		return;
	}
	if (P_handler_posts > 0) {
		/* a post that arrives while the handler is running must cause another run */
		P_handler_posts--;
		sx_cover("raw.post-while-handler-runs");
		post(r);
	}
}

static void sig_handler(int sig)
{
	/* async-signal context: only iv_event_raw_post is allowed */
	sx_cover("raw.posted-from-signal-handler");
	post(&R[0]);
}

static void *poster_main(void *arg)
{
	int q;

	for (q = 0; q < nN; q++)
		post(&R[nR > 1 ? sx_choose(nR) : 0]);
	if (sx_opt("symburst", 0)) {
		/* a burst of an unknown number of further posts, all of which found room in the pipe:
		 * each is one successful 1-byte write, i.e. the byte count grows by that number */
		struct kfd *f = &kfds[R[0].ev->event_wfd];
		if (f->kind == K_PIPE_W) {
			struct kpipe *p = &kpipes[f->obj];
			long extra = sx_long("burst", 0, p->cap - p->count);
			p->count += (int)extra;
			R[0].posts += 2;
			sx_cover("raw.symbolic-burst");
		}
	}
	if (sig_posts_left > 0) {
		/* somebody signals the process at this point */
		sig_posts_left--;
		p_send_process_signal(SIGUSR1);
	}
	posters_done++;
	return NULL;
}

void sx_on_quiescent(void)
{
	int i;

	sx_cover("raw.quiescent");
	sx_leak_check_unreachable();	/* C18: nothing the library allocated has been lost track of */
	sx_assert(posters_done == nT, "C09.poster-blocked");
	for (i = 0; i < nR; i++) {
		if (!R[i].registered)
			continue;
		sx_assert(R[i].post_begin == 0 || R[i].handler_begin > R[i].post_begin,
			  "C09.post-not-followed-by-handler");
		if (R[i].posts > 1 && R[i].handled < R[i].posts)
			sx_cover("raw.posts-coalesced");
	}
}

static int idle(struct kwait_info *wi)
{
	if (sx_nthreads() == 1 && !wi->has_timeout && !p_signal_deliverable() && p_pending == 0) {
		sx_on_quiescent();
		sx_end();
	}
	return 0;
}

void sx_main(void)
{
	pthread_t th[4];
	int i, m, cfg;

	nR = (int)sx_opt("R", 1);
	nT = (int)sx_opt("T", 1);
	nN = (int)sx_opt("N", 2);
	nS = (int)sx_opt("S", 0);
	P_handler_posts = (int)sx_opt("hposts", 0);
	m = (int)sx_opt("method", 0);
	cfg = (int)sx_opt("cfg", 0);
	k_pipe_cap = (int)sx_opt("pipecap", 2);
	k_env_exclude = m == 0 ? NULL : m == 1 ? "epoll-timerfd" : m == 2 ? "epoll-timerfd epoll"
									: "epoll-timerfd epoll ppoll";
	if (cfg == 1)
		k_sys_mode[KSYS_EVENTFD2] = 4;	/* EINVAL: kernel without the flags argument */
	if (cfg == 2) {
		k_sys_mode[KSYS_EVENTFD2] = 1;
		k_sys_mode[KSYS_EVENTFD] = 1;
		sx_cover("raw.pipe-fallback");
	}
	if (cfg == 3) {
		/* the newer calls disappear at some later call (e.g. a seccomp filter installed mid-run) */
		k_sys_mode[KSYS_EVENTFD2] = 2;
		k_sys_mode[KSYS_EVENTFD] = 2;
	}
	k_idle_hook = idle;
	if (sx_opt("hb", 0))
		sx_hb_enable();
	owner_tid = sx_tid();
	iv_init();
	for (i = 0; i < nR; i++) {
		struct iv_event_raw *ev = malloc(sizeof(*ev));
		memset(ev, 0xAA, sizeof(*ev));
		IV_EVENT_RAW_INIT(ev);
		ev->cookie = &R[i];
		ev->handler = handler;
		R[i].ev = ev;
		R[i].id = i;
		sx_assert(iv_event_raw_register(ev) == 0, "C09.raw-register-failed");
		R[i].registered = 1;
		/* C18: the library's own descriptors are non-blocking and close-on-exec */
		sx_assert(kfds[ev->event_rfd.fd].nonblock && kfds[ev->event_rfd.fd].cloexec,
			  "C18.raw-event-fd-not-nonblock-cloexec");
		sx_assert(kfds[ev->event_wfd].nonblock && kfds[ev->event_wfd].cloexec,
			  "C18.raw-event-fd-not-nonblock-cloexec");
	}
	if (sx_opt("rereg", 0)) {
		/* second use of the same object: unregistered, then registered again as it is, possibly after the
		 * eventfd calls have stopped working (the pipe gets the descriptor number that was just freed) */
		struct iv_event_raw *ev = R[0].ev;

		iv_event_raw_unregister(ev);
		if (sx_choose(2)) {
			k_sys_fail_from[KSYS_EVENTFD2] = k_sys_calls[KSYS_EVENTFD2] + 1;
			k_sys_fail_from[KSYS_EVENTFD] = k_sys_calls[KSYS_EVENTFD] + 1;
			sx_cover("raw.reregistered-after-eventfd-disappeared");
		}
		sx_assert(iv_event_raw_register(ev) == 0, "C09.raw-register-failed");
		sx_assert(kfds[ev->event_rfd.fd].nonblock && kfds[ev->event_rfd.fd].cloexec,
			  "C18.raw-event-fd-not-nonblock-cloexec");
		sx_assert(kfds[ev->event_wfd].nonblock, "C09.write-end-blocking-so-posting-may-block");
		sx_assert(kfds[ev->event_wfd].cloexec, "C18.raw-event-fd-not-nonblock-cloexec");
		sx_cover("raw.reregistered");
	}
	if (nS > 0) {
		struct sigaction sa;
		memset(&sa, 0, sizeof(sa));
		sa.sa_handler = sig_handler;
		sigaction(SIGUSR1, &sa, NULL);
		sig_posts_left = nS;
		p_opt_deliveries = 1;
		p_signals_possible = 1;
	}
	for (i = 0; i < nT; i++)
		pthread_create(&th[i], NULL, poster_main, NULL);
	if (sx_opt("ownerpost", 0)) {
		sx_cover("raw.owner-posts");
		post(&R[0]);
	}
	iv_main();
	sx_fail("C07.iv_main-returned-with-raw-event-registered");
}
