/* C05: the timer store (radix-tree-addressed binary heap in iv_timer.c).
 *  mode 0: every history of L register/unregister operations from empty, unknown
 *          expiries, then all timers are made due and must fire in expiry order
 *  mode 1: inductive step: heap of N timers built through the real API, all keys
 *          replaced by unknowns constrained only by the heap order, one operation
 *          (register unknown key / unregister any slot), post-state read back by an
 *          independent slot walker
 *  mode 2: population N around a radix-level boundary with the shipped split; one
 *          unknown key (the new timer's, or the last slot's), the rest concrete */
#include <stdlib.h>
#include <string.h>
#include <iv.h>
#include "iv_private.h"
#include "sx.h"
#include "kmodel.h"

#define MAXN 20000

struct trec {
	struct iv_timer t;
	int id;
	int registered;
	int fired;
};

static struct trec **recs;
static int nrecs;
static int live;
static long last_sec, last_nsec;
static int have_last;
static int nfired;
static long keymax = 1000000;
static int symmode;	/* 1: (sec,nsec) unknown  3: sec unknown, nsec 0 */

static void handler(void *c)
{
	struct trec *r = c;

	sx_assert(r->registered, "C05.unregistered-timer-fired");
	sx_assert(r->fired == 0, "C05.timer-fired-twice");
	r->fired = 1;
	r->registered = 0;
	live--;
	nfired++;
	/* expiry order: never before a strictly earlier one that is still waiting == the
	 * sequence of fired expiries is non-decreasing */
	if (have_last)
		sx_assert((last_sec < r->t.expires.tv_sec) |
			  ((last_sec == r->t.expires.tv_sec) & (last_nsec <= r->t.expires.tv_nsec)),
			  "C05.fired-out-of-expiry-order");
	last_sec = r->t.expires.tv_sec;
	last_nsec = r->t.expires.tv_nsec;
	have_last = 1;
}

static struct trec *mk(void)
{
	struct trec *r = malloc(sizeof(*r));

	IV_TIMER_INIT(&r->t);
	r->t.cookie = r;
	r->t.handler = handler;
	r->id = nrecs;
	r->registered = 0;
	r->fired = 0;
	recs[nrecs++] = r;
	return r;
}

static void sym_key(struct trec *r)
{
	r->t.expires.tv_sec = sx_long("exp.sec", 0, keymax);
	r->t.expires.tv_nsec = symmode == 1 ? sx_long("exp.nsec", 0, 999999999) : 0;
}

static void reg(struct trec *r)
{
	iv_timer_register(&r->t);
	r->registered = 1;
	live++;
}

static void unreg(struct trec *r)
{
	iv_timer_unregister(&r->t);
	sx_assert(!iv_timer_registered(&r->t), "C05.still-registered-after-unregister");
	r->registered = 0;
	live--;
}

/* ---- independent read-back of the store ---- */
static struct iv_timer_ *slot(struct iv_state *st, int index)
{
	struct iv_timer_ratnode *r = st->ratnode.timer_root;
	int i;

	for (i = st->rat_depth; i > 0; i--) {
		r = r->child[(index >> (i * IV_TIMER_SPLIT_BITS)) & (IV_TIMER_SPLIT_NODES - 1)];
		sx_assert(r != NULL, "C05.missing-radix-node");
	}
	return r->child[index & (IV_TIMER_SPLIT_NODES - 1)];
}

static long ts_gt(const struct timespec *a, const struct timespec *b)
{
	return (a->tv_sec > b->tv_sec) | ((a->tv_sec == b->tv_sec) & (a->tv_nsec > b->tv_nsec));
}

static void check_store(int full_order)
{
	struct iv_state *st = iv_get_state();
	int n = st->num_timers, i, cnt = 0;
	long ordered = 1;

	sx_assert(n == live, "C05.population-mismatch");
	/* capacity bookkeeping of the radix tree */
	sx_assert((n >> ((st->rat_depth + 1) * IV_TIMER_SPLIT_BITS)) == 0, "C05.radix-depth-too-small");
	if (st->rat_depth > 0)
		sx_assert(n >= (1 << (st->rat_depth * IV_TIMER_SPLIT_BITS)), "C05.radix-depth-too-large");
	for (i = 1; i <= n; i++) {
		struct iv_timer_ *t = slot(st, i);
		struct trec *r;
		sx_assert(t != NULL, "C05.empty-slot-inside-heap");
		sx_assert(t->index == i, "C05.back-index-wrong");
		r = t->cookie;
		sx_assert(r->registered && (struct iv_timer_ *)&r->t == t, "C05.foreign-timer-in-store");
		cnt++;
		if (i > 1 && (full_order || i <= 64 || i + 64 >= n)) {
			struct iv_timer_ *p = slot(st, i / 2);
			ordered &= !ts_gt(&p->expires, &t->expires);
		}
	}
	sx_assert(ordered, "C05.heap-order-violated");
	for (i = 0; i < nrecs; i++)
		if (recs[i] != NULL && recs[i]->registered)
			cnt--;
	sx_assert(cnt == 0, "C05.registered-set-mismatch");
	if (n > 0) {
		const struct timespec *s = iv_get_soonest_timeout(st);
		struct iv_timer_ *root = slot(st, 1);
		sx_assert(s == &root->expires, "C05.soonest-is-not-the-root");
	} else {
		sx_assert(iv_get_soonest_timeout(st) == NULL, "C05.soonest-with-empty-store");
	}
}

static void fire_all(void)
{
	int before = live;

	k_now.sec = 2 * keymax;	/* later than every key */
	k_now.nsec = 0;
	have_last = 0;
	nfired = 0;
	iv_main();
	sx_assert(nfired == before, "C05.not-all-due-timers-fired");
	sx_assert(live == 0, "C05.timers-left-after-firing-all");
}

void sx_main(void)
{
	int mode = (int)sx_opt("mode", 0);
	int L = (int)sx_opt("L", 4);
	int N = (int)sx_opt("N", 5);
	int i, j, k, c;
	struct trec *r;

	symmode = (int)sx_opt("sym", 3);
	if (sx_opt("farkeys", 0))
		keymax = 1L << 40;	/* expiries tens of thousands of years apart */
	recs = calloc(MAXN, sizeof(*recs));
	k_env_exclude = "epoll-timerfd epoll ppoll";	/* plain poll: irrelevant to the store */
	iv_init();

	if (mode == 0) {
		for (i = 0; i < L; i++) {
			if (live == 0 || sx_choose(2) == 0) {
				r = mk();
				sym_key(r);
				reg(r);
				sx_cover("C05.history-register");
			} else {
				/* victim: any registered timer */
				c = sx_choose(live);
				for (j = 0, k = 0; j < nrecs; j++) {
					if (recs[j] != NULL && recs[j]->registered) {
						if (k == c)
							break;
						k++;
					}
				}
				unreg(recs[j]);
				free(recs[j]);
				recs[j] = NULL;
				sx_cover("C05.history-unregister");
			}
			check_store(1);
		}
		fire_all();
		sx_cover("C05.history-fired-in-order");
	} else if (mode == 1) {
		struct iv_state *st = iv_get_state();
		for (i = 1; i <= N; i++) {
			r = mk();
			r->t.expires.tv_sec = i;
			r->t.expires.tv_nsec = 0;
			reg(r);
		}
		/* timer i sits in slot i; now forget the keys: any values obeying the heap order */
		for (i = 1; i <= N; i++) {
			struct iv_timer_ *t = slot(st, i);
			sx_assert(t == (struct iv_timer_ *)&recs[i - 1]->t, "harness.slot-layout");
			sym_key(recs[i - 1]);
		}
		for (i = 2; i <= N; i++)
			sx_assume(!ts_gt(&recs[i / 2 - 1]->t.expires, &recs[i - 1]->t.expires));
		if (N == 0 || sx_choose(2) == 0) {
			r = mk();
			sym_key(r);
			reg(r);
			sx_cover("C05.step-register");
		} else {
			c = sx_choose(N);
			unreg(recs[c]);
			free(recs[c]);
			recs[c] = NULL;
			sx_cover("C05.step-unregister");
		}
		check_store(1);
		if (sx_opt("fire", 0))
			fire_all();
		else
			sx_end();	/* tearing down unknown keys would only repeat the step N times */
	} else {
		/* mode 2: big population with the shipped split, concrete keys (slot j holds key j),
		 * one unknown key */
		struct iv_state *st = iv_get_state();
		int depth_before;
		for (i = 1; i <= N; i++) {
			r = mk();
			r->t.expires.tv_sec = i;
			r->t.expires.tv_nsec = 0;
			reg(r);
		}
		depth_before = st->rat_depth;
		c = sx_choose(3);
		if (c == 0) {
			r = mk();
			sym_key(r);
			reg(r);
			sx_cover("C05.boundary-register");
		} else {
			/* last slot's key unknown (>= its parent's) and then a victim is removed */
			int victims[6] = { 0, N - 1, N / 2, N / 2 - 1, (N - 1) / 2, 1 };
			r = recs[N - 1];
			r->t.expires.tv_sec = sx_long("exp.sec", N / 2, 1000000);
			j = victims[sx_choose(6)];
			if (j < 0 || j >= N)
				j = 0;
			if (c == 2 && j != N - 1) {
				/* two removals in a row: down and across the boundary */
				unreg(recs[N - 1]);
				free(recs[N - 1]);
				recs[N - 1] = NULL;
			}
			unreg(recs[j]);
			free(recs[j]);
			recs[j] = NULL;
			sx_cover("C05.boundary-unregister");
		}
		if (st->rat_depth > depth_before)
			sx_cover("C05.radix-level-added");
		if (st->rat_depth < depth_before)
			sx_cover("C05.radix-level-removed");
		check_store(0);
		sx_end();	/* tearing down N timers around an unknown key only repeats the step above */
	}
	/* release everything: C18-style hygiene of the store */
	for (i = 0; i < nrecs; i++) {
		if (recs[i] != NULL) {
			if (recs[i]->registered)
				unreg(recs[i]);
			free(recs[i]);
		}
	}
	iv_deinit();
	free(recs);
	sx_leak_check(0);
}
