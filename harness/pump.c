/* C17: iv_fd_pump.  The input stream is B unknown bytes with EOF at a forked
 * offset; every read/splice-in and write/splice-out outcome (partial count,
 * EAGAIN, EINTR, error, 0) is a fork; the oracle compares the bytes accepted
 * by the output with the prefix of the input (solver over byte values). */
#include <errno.h>
#include <stdlib.h>
#include <string.h>
#include <sys/socket.h>
#include <iv.h>
#include <iv_fd_pump.h>
#include "sx.h"
#include "kmodel.h"

#define MAXB 16

#ifndef IVYKIS_VERIF_PUMP_BUF_SIZE
#define IVYKIS_VERIF_PUMP_BUF_SIZE 4096
#endif
#define BUFSZ IVYKIS_VERIF_PUMP_BUF_SIZE

static unsigned char in[MAXB], out[MAXB];
static int inlen;		/* EOF after this many bytes */
static int consumed;		/* bytes the pump took from the input */
static int outn;		/* bytes the output accepted */
static int eof_seen;		/* the pump has been told EOF (read/splice returned 0) */
static int shutdowns;
static int io_error_now;	/* an I/O error was injected during the current pump call */
static int io_error_ever;
static int eintr_budget, err_budget, eagain_budget;
static int from_fd, to_fd;
static int splice_mode;
static int band_in = -1, band_out = -1, band_calls;
static int relay_flag;
static int pump_pipe = -1;
static int input_dry;		/* the last input attempt found no data (EAGAIN for lack of input) */	/* kernel pipe object used by the pump in splice mode */

static void set_bands(void *cookie, int pollin, int pollout)
{
	band_in = pollin;
	band_out = pollout;
	band_calls++;
}

/* ---- input side ---- */
static long do_input(unsigned char *dst, int space, struct kpipe *pp)
{
	int remaining = inlen - consumed, maxc, c, i, k;

	if (space <= 0) {
		/* a zero-length read or splice returns 0 whatever the state of the source: not an end of stream */
		sx_cover("pump.zero-length-input-attempt");
		return 0;
	}
	/* outcome: 0..maxc-1 => that many+1 bytes; then EAGAIN, EINTR, error */
	if (remaining == 0 && !(eagain_budget > 0)) {
		eof_seen = 1;
		return 0;
	}
	maxc = remaining < space ? remaining : space;
	input_dry = 0;
	k = sx_choose(maxc + 1 + (eintr_budget > 0) + (err_budget > 0) + (remaining == 0));
	if (k < maxc) {
		c = k + 1;
		for (i = 0; i < c; i++) {
			if (pp) {
				pp->data[(pp->head + pp->count) % KPIPE_MAXCAP] = in[consumed + i];
				pp->count++;
			} else {
				dst[i] = in[consumed + i];
			}
		}
		consumed += c;
		if (c < maxc)
			sx_cover("pump.partial-read");
		return c;
	}
	k -= maxc;
	if (k == 0) {
		if (remaining == 0 && !eagain_budget) {
			eof_seen = 1;
			return 0;
		}
		if (eagain_budget > 0)
			eagain_budget--;
		input_dry = 1;
		errno = EAGAIN;
		sx_cover("pump.input-would-block");
		return -1;
	}
	k--;
	if (eintr_budget > 0) {
		if (k == 0) {
			eintr_budget--;
			errno = EINTR;
			sx_cover("pump.input-eintr");
			return -1;
		}
		k--;
	}
	if (err_budget > 0) {
		if (k == 0) {
			err_budget--;
			io_error_now = 1;
			io_error_ever = 1;
			errno = ECONNRESET;
			sx_cover("pump.input-error");
			return -1;
		}
		k--;
	}
	eof_seen = 1;
	return 0;
}

/* ---- output side ---- */
static long do_output(const unsigned char *src, int n, struct kpipe *pp)
{
	int k, c, i;

	sx_assert(n > 0, "C17.output-attempt-with-nothing-buffered");
	if (pp)
		sx_assert(n <= pp->count, "C17.splice-out-more-than-buffered");
	k = sx_choose(n + 2 + (eintr_budget > 0) + (err_budget > 0));
	if (k < n) {
		c = k + 1;
		sx_assert(outn + c <= MAXB, "harness.out-overflow");
		for (i = 0; i < c; i++) {
			if (pp) {
				out[outn + i] = pp->data[pp->head];
				pp->head = (pp->head + 1) % KPIPE_MAXCAP;
				pp->count--;
			} else {
				out[outn + i] = src[i];
			}
		}
		outn += c;
		if (c < n)
			sx_cover("pump.partial-write");
		return c;
	}
	k -= n;
	if (k == 0) {
		errno = EAGAIN;
		sx_cover("pump.output-would-block");
		return -1;
	}
	if (k == 1) {
		/* a write that accepts nothing is not progress: the pump must treat it as an error */
		io_error_now = 1;
		io_error_ever = 1;
		sx_cover("pump.output-returns-zero");
		return 0;
	}
	k -= 2;
	if (eintr_budget > 0) {
		if (k == 0) {
			eintr_budget--;
			errno = EINTR;
			sx_cover("pump.output-eintr");
			return -1;
		}
		k--;
	}
	err_budget--;
	io_error_now = 1;
	io_error_ever = 1;
	errno = EPIPE;
	sx_cover("pump.output-error");
	return -1;
}

static long rd_hook(int fd, void *buf, unsigned long n)
{
	if (n == 0xF10EADUL) {
		/* ioctl(FIONREAD) on the input: bytes available right now (no data arrives between
		 * the failed splice and this call: that race is outside the claim) */
		*(int *)buf = input_dry ? 0 : inlen - consumed;
		return 0;
	}
	sx_assert(fd == from_fd, "C17.read-from-wrong-descriptor");
	sx_assert(n > 0 && n <= BUFSZ, "C17.read-size-out-of-range");
	return do_input(buf, (int)n, NULL);
}

static long wr_hook(int fd, const void *buf, unsigned long n)
{
	if ((n & 0xFF000000UL) == 0x5D000000UL) {
		/* shutdown(fd, how) */
		sx_assert(fd == to_fd && (n & 0xff) == SHUT_WR, "C17.shutdown-of-wrong-descriptor");
		sx_assert(relay_flag, "C17.shutdown-without-relay-flag");
		sx_assert(eof_seen && outn == consumed, "C17.eof-relayed-before-data-delivered");
		shutdowns++;
		sx_assert(shutdowns == 1, "C17.shutdown-twice");
		return 0;
	}
	sx_assert(fd == to_fd, "C17.write-to-wrong-descriptor");
	return do_output(buf, (int)n, NULL);
}

static long splice_hook(int fdin, int fdout, unsigned long len)
{
	struct kpipe *pp;

	if (fdin == from_fd) {
		int space;
		sx_assert(kfds[fdout].kind == K_PIPE_W, "C17.splice-in-target-not-a-pipe");
		pp = &kpipes[kfds[fdout].obj];
		pump_pipe = kfds[fdout].obj;
		space = pp->cap - pp->count;
		if (space == 0) {
			errno = EAGAIN;
			sx_cover("pump.splice-pipe-full");
			return -1;
		}
		return do_input(NULL, space < (int)len ? space : (int)len, pp);
	}
	if (fdout == to_fd) {
		sx_assert(kfds[fdin].kind == K_PIPE_R, "C17.splice-out-source-not-a-pipe");
		pp = &kpipes[kfds[fdin].obj];
		return do_output(NULL, (int)len, pp);
	}
	/* pipe to pipe: the availability probe */
	if (kfds[fdin].kind == K_PIPE_R && kpipes[kfds[fdin].obj].count == 0) {
		errno = EAGAIN;
		return -1;
	}
	sx_fail("harness.unexpected-splice");
	return -1;
}

static void check_after_call(int ret)
{
	int i, buffered = consumed - outn;
	long same = 1;

	/* the stream: what came out is the prefix of what went in, in order */
	sx_assert(outn <= consumed, "C17.output-exceeds-input");
	for (i = 0; i < outn; i++)
		same &= (out[i] == in[i]);
	sx_assert(same, "C17.bytes-differ");
	if (io_error_now) {
		sx_assert(ret == -1, "C17.io-error-not-reported");
		return;
	}
	sx_assert(ret != -1, "C17.error-reported-without-io-error");
	if (eof_seen && buffered == 0) {
		sx_assert(ret == 0, "C17.eof-relayed-but-return-not-0");
		sx_assert(!relay_flag || shutdowns == 1, "C17.output-not-shut-down-at-eof");
		sx_assert(band_in == 0 && band_out == 0, "C17.bands-after-eof");
		sx_cover("pump.done");
	} else {
		sx_assert(ret == 1, "C17.return-not-1-while-more-remains");
		sx_assert(shutdowns == 0, "C17.shutdown-before-done");
		/* output wanted while data is buffered */
		sx_assert(band_out == (buffered > 0), "C17.output-band-does-not-reflect-buffered-data");
		/* input wanted while no EOF was seen and buffer space remains */
		if (eof_seen) {
			sx_assert(band_in == 0, "C17.input-band-after-eof");
		} else if (!splice_mode) {
			sx_assert(band_in == (buffered < BUFSZ), "C17.input-band-does-not-reflect-buffer-space");
			if (buffered == BUFSZ)
				sx_cover("pump.buffer-full");
		} else {
			/* splice mode: the pipe is the buffer; input may only be switched off when it is full */
			if (band_in == 0) {
				sx_assert(pump_pipe >= 0 && kpipes[pump_pipe].count == kpipes[pump_pipe].cap,
					  "C17.input-band-off-with-space-in-pipe");
				sx_cover("pump.buffer-full");
			}
		}
	}
}

void sx_main(void)
{
	struct iv_fd_pump p;
	int N = (int)sx_opt("N", 4);
	int B = (int)sx_opt("B", 4);
	int i, ret, done = 0;

	splice_mode = (int)sx_opt("splice", 0);
	relay_flag = (int)sx_opt("relay", 1);
	eintr_budget = (int)sx_opt("eintr", 1);
	err_budget = (int)sx_opt("err", 1);
	eagain_budget = (int)sx_opt("eagain", 1);
	k_pipe_cap = (int)sx_opt("pipecap", 4);
	if (!splice_mode)
		k_sys_mode[KSYS_SPLICE] = 1;
	if (sx_opt("nopipe2", 0))
		k_sys_mode[KSYS_PIPE2] = 1;
	k_read_hook = rd_hook;
	k_write_hook = wr_hook;
	k_splice_hook = splice_hook;

	iv_init();
	from_fd = k_new_generic();
	to_fd = k_new_generic();
	inlen = sx_choose(B + 1);
	for (i = 0; i < inlen; i++)
		in[i] = (unsigned char)sx_long("in", 0, 255);

	IV_FD_PUMP_INIT(&p);
	p.from_fd = from_fd;
	p.to_fd = to_fd;
	p.cookie = &p;
	p.set_bands = set_bands;
	p.flags = relay_flag ? IV_FD_PUMP_FLAG_RELAY_EOF : 0;
	iv_fd_pump_init(&p);
	sx_assert(band_in == 1 && band_out == 0, "C17.initial-bands");

	{
		int round, rounds = (int)sx_opt("pumps", 1);

		for (round = 0; round < rounds; round++) {
			if (round > 0) {
				/* a second pump on the same thread, fresh descriptors and a fresh stream: it may
				 * get its buffer from the per-thread cache the first pump returned its buffer to */
				sx_cover("pump.second-pump-on-same-thread");
				from_fd = k_new_generic();
				to_fd = k_new_generic();
				inlen = sx_choose(B + 1);
				for (i = 0; i < inlen; i++)
					in[i] = (unsigned char)sx_long("in2", 0, 255);
				consumed = outn = eof_seen = shutdowns = io_error_now = 0;
				band_in = band_out = -1;
				pump_pipe = -1;
				input_dry = 0;
				done = 0;
				err_budget = 0;
				IV_FD_PUMP_INIT(&p);
				p.from_fd = from_fd;
				p.to_fd = to_fd;
				p.cookie = &p;
				p.set_bands = set_bands;
				p.flags = relay_flag ? IV_FD_PUMP_FLAG_RELAY_EOF : 0;
				iv_fd_pump_init(&p);
				sx_assert(band_in == 1 && band_out == 0, "C17.initial-bands");
			}
			for (i = 0; i < N; i++) {
				io_error_now = 0;
				ret = iv_fd_pump_pump(&p);
				check_after_call(ret);
				if (ret < 0)
					break;
				if (ret == 0) {
					done = 1;
					sx_assert(iv_fd_pump_is_done(&p), "C17.is_done-false-after-return-0");
					/* returns 0 from then on, and touches nothing */
					if (sx_opt("again", 1)) {
						int o = outn, c = consumed;
						ret = iv_fd_pump_pump(&p);
						sx_assert(ret == 0 && outn == o && consumed == c, "C17.not-idle-after-done");
					}
					break;
				}
				sx_assert(!iv_fd_pump_is_done(&p), "C17.is_done-true-while-more-remains");
			}
			band_calls = 0;
			iv_fd_pump_destroy(&p);
			if (!done)
				sx_assert(band_in == 0 && band_out == 0, "C17.bands-not-cleared-by-destroy");
		}
	}
	iv_deinit();
	/* every buffer / pipe went back (cache purged by the thread's tear-down) */
	sx_assert(k_count_open(1) == 0, "C18.descriptor-leak-after-deinit");
	sx_leak_check(0);
	sx_cover("pump.complete-run");
}
