/* C20: iv_inotify.  One read returns m records whose watch descriptor and
 * IN_IGNORED bit are solver unknowns and whose name length is forked; handlers
 * unregister (and free) themselves, other watches or the whole instance. */
#include <errno.h>
#include <stdlib.h>
#include <string.h>
#include <sys/inotify.h>
#include <iv.h>
#include <iv_inotify.h>
#include "sx.h"
#include "kmodel.h"

#define MAXW 4
#define MAXM 4

struct wrec {
	struct iv_inotify_watch *w;
	int in_tree;		/* ghost: registered with the instance and not dropped */
	int wd;
	int oneshot;
	int id;
	int deliveries;
};

static struct iv_inotify *ino;
static long *rec_wd;
static long *rec_ignored;
static int nrec, maxrec;
static int ino_registered;
static int ino_kfd;
static struct wrec W[MAXW];
static int nW, nM;
static int next_wd = 1;

/* the records of the current read */
static struct inotify_event **recaddr;
static int next_rec;		/* first record not yet accounted for */
static int reads;
static int P_acts;

/* ---- kernel side ---- */
int inotify_init(void)
{
	int fd;

	if (k_sys_mode[KSYS_INOTIFY]) {
		errno = ENOSYS;
		return -1;
	}
	k_harness_ctx = 0;
	fd = k_new_generic();
	kfds[fd].kind = K_INOTIFY;
	kfds[fd].by_lib = 1;
	return fd;
}

int inotify_add_watch(int fd, const char *path, uint32_t mask)
{
	sx_assert(fd == ino_kfd && kfds[fd].kind == K_INOTIFY, "C20.add_watch-on-wrong-descriptor");
	return next_wd++;
}

/* the kernel forgets a watch descriptor the moment it queues IN_IGNORED for it, or its
 * first event if the watch is one-shot; removing it afterwards fails with EINVAL although
 * those events may still be waiting in the buffer that was read */
int inotify_rm_watch(int fd, int wd)
{
	int i, j;
	long gone = 0;

	sx_assert(fd == ino_kfd && kfds[fd].kind == K_INOTIFY, "C20.rm_watch-on-wrong-descriptor");
	for (i = 0; i < nrec; i++) {
		long oneshot = 0;
		for (j = 0; j < nW; j++)
			if (W[j].oneshot && W[j].wd == wd)
				oneshot = 1;
		gone |= (rec_wd[i] == wd) & (rec_ignored[i] | oneshot);
	}
	if (gone) {
		sx_cover("inotify.rm_watch-of-kernel-removed-watch");
		errno = EINVAL;
		return -1;
	}
	return 0;
}

static long rd_hook(int fd, void *buf, unsigned long n)
{
	unsigned char *p = buf;
	int i;

	sx_assert(fd == ino_kfd, "C20.read-from-wrong-descriptor");
	if (reads++ > 0) {
		errno = EAGAIN;
		return -1;
	}
	nrec = nM;
	if (sx_opt("fullbuf", 0)) {
		/* scale: the read fills the library's buffer to the last byte with name-less events of one watch */
		nrec = (int)(n / sizeof(struct inotify_event));
		sx_assert(nrec <= maxrec, "harness.record-arrays-too-small");
		for (i = 0; i < nrec; i++) {
			struct inotify_event *ev = (struct inotify_event *)p;
			recaddr[i] = ev;
			rec_wd[i] = W[0].wd;
			rec_ignored[i] = 0;
			ev->wd = W[0].wd;
			ev->mask = IN_MODIFY;
			ev->cookie = 0;
			ev->len = 0;
			p += sizeof(*ev);
		}
		sx_cover("inotify.read-fills-the-whole-buffer");
		kfds[fd].rd = 0;
		return p - (unsigned char *)buf;
	}
	for (i = 0; i < nrec; i++) {
		struct inotify_event *ev = (struct inotify_event *)p;
		/* no name, a short name, or the longest the kernel produces (255 characters + NUL = 256) */
		int nl = sx_choose(3);
		int namelen = nl == 0 ? 0 : nl == 1 ? 16 : 256;
		recaddr[i] = ev;
		rec_wd[i] = sx_long("rec.wd", 0, nW + 1);
		rec_ignored[i] = sx_long("rec.ignored", 0, 1);
		ev->wd = (int)rec_wd[i];
		ev->mask = (uint32_t)(IN_MODIFY + rec_ignored[i] * IN_IGNORED);
		ev->cookie = (uint32_t)sx_long("rec.cookie", 0, 0xffffffffL);
		ev->len = (uint32_t)namelen;
		if (namelen) {
			memset(ev->name, 0, namelen);
			ev->name[0] = 'f';
			if (namelen > 16)
				sx_cover("inotify.record-with-longest-name");
			sx_cover("inotify.record-with-name");
		}
		p += sizeof(*ev) + namelen;
	}
	kfds[fd].rd = 0;
	return p - (unsigned char *)buf;
}

/* every record in [next_rec, upto) was skipped by the library: it must not have matched a live watch */
static void check_skipped(int upto)
{
	int s, j;

	for (s = next_rec; s < upto; s++) {
		long nomatch = 1;
		for (j = 0; j < nW; j++)
			if (W[j].in_tree)
				nomatch &= (rec_wd[s] != W[j].wd);
		sx_assert(nomatch, "C20.event-for-live-watch-not-delivered");
	}
}

static void unregister_instance(void);

static void handler(void *cookie, struct inotify_event *ev)
{
	struct wrec *r = cookie;
	int i, idx = -1, n, c;
	int cand[MAXW + 2][2];

	sx_note("cb:watch", r->id);
	sx_assert(ino_registered, "C20.delivery-after-instance-unregistered");
	sx_assert(r->w != NULL && r->in_tree, "C20.delivery-to-unregistered-or-dropped-watch");
	if (nrec > MAXM) {
		/* large buffers: records have a fixed size */
		long k = ((char *)ev - (char *)recaddr[0]) / (long)sizeof(struct inotify_event);
		if (k >= 0 && k < nrec && recaddr[k] == ev)
			idx = (int)k;
	} else {
		for (i = 0; i < nrec; i++)
			if (recaddr[i] == ev)
				idx = i;
	}
	sx_assert(idx >= 0, "C20.event-pointer-is-not-a-record-boundary");
	sx_assert(idx >= next_rec, "C20.records-delivered-out-of-order-or-twice");
	check_skipped(idx);
	/* routed by watch descriptor */
	sx_assert(rec_wd[idx] == r->wd, "C20.event-delivered-to-wrong-watch");
	next_rec = idx + 1;
	r->deliveries++;
	sx_cover("inotify.delivered");
	/* kernel-removed and one-shot watches are out of the instance before the handler runs */
	if (rec_ignored[idx] | r->oneshot) {
		r->in_tree = 0;
		sx_cover("inotify.dropped-before-handler");
		/* the application may free a dropped watch right here */
		free(r->w);
		r->w = NULL;
	}
	/* action */
	n = 0;
	cand[n][0] = 0;
	cand[n++][1] = 0;
	if (P_acts & 1)
		for (i = 0; i < nW; i++)
			if (W[i].in_tree) {
				cand[n][0] = 1;
				cand[n++][1] = i;
			}
	if (P_acts & 2) {
		cand[n][0] = 2;
		cand[n++][1] = 0;
	}
	c = sx_choose(n);
	if (cand[c][0] == 1) {
		struct wrec *v = &W[cand[c][1]];
		sx_note("op:watch_unregister", v->id);
		if (v == r)
			sx_cover("inotify.unregister-self-in-handler");
		else
			sx_cover("inotify.unregister-other-in-handler");
		iv_inotify_watch_unregister(v->w);
		free(v->w);
		v->w = NULL;
		v->in_tree = 0;
	} else if (cand[c][0] == 2) {
		sx_note("op:instance_unregister", 0);
		sx_cover("inotify.unregister-instance-in-handler");
		unregister_instance();
	}
}

static void unregister_instance(void)
{
	int i;

	iv_inotify_unregister(ino);
	free(ino);
	ino = NULL;
	ino_registered = 0;
	for (i = 0; i < nW; i++) {
		/* the watches die with the instance; the application frees them */
		if (W[i].w != NULL) {
			free(W[i].w);
			W[i].w = NULL;
		}
		W[i].in_tree = 0;
	}
}

void sx_main(void)
{
	int i, scenario = (int)sx_opt("scenario", 1);

	nW = (int)sx_opt("W", 2);
	nM = (int)sx_opt("M", 2);
	maxrec = sx_opt("fullbuf", 0) ? 8192 : MAXM;
	rec_wd = calloc(maxrec, sizeof(*rec_wd));
	rec_ignored = calloc(maxrec, sizeof(*rec_ignored));
	recaddr = calloc(maxrec, sizeof(*recaddr));
	P_acts = (int)sx_opt("acts", 3);
	k_env_exclude = sx_opt("poll", 0) ? "epoll-timerfd epoll ppoll" : NULL;
	k_read_hook = rd_hook;
	iv_init();

	ino = malloc(sizeof(*ino));
	memset(ino, 0xAA, sizeof(*ino));	/* registration must initialise what it later reads */
	IV_INOTIFY_INIT(ino);
	sx_assert(iv_inotify_register(ino) == 0, "C20.register-failed");
	ino_registered = 1;
	ino_kfd = ino->fd.fd;

	if (scenario == 0) {
		/* an instance that never saw an event is unregistered again */
		sx_cover("inotify.unregister-without-events");
		unregister_instance();
	} else {
		for (i = 0; i < nW; i++) {
			struct iv_inotify_watch *w = malloc(sizeof(*w));
			memset(w, 0xAA, sizeof(*w));
			IV_INOTIFY_WATCH_INIT(w);
			w->inotify = ino;
			w->pathname = "/tmp/x";
			W[i].oneshot = (i == nW - 1);
			w->mask = IN_MODIFY | (W[i].oneshot ? IN_ONESHOT : 0);
			w->cookie = &W[i];
			w->handler = handler;
			sx_assert(iv_inotify_watch_register(w) == 0, "C20.watch-register-failed");
			W[i].w = w;
			W[i].wd = w->wd;
			W[i].in_tree = 1;
			W[i].id = i;
		}
		kfds[ino_kfd].rd = 1;	/* events are waiting */
		k_idle_hook = NULL;
		/* run the loop: one iteration delivers the buffer; then stop */
		{
			struct iv_task *t = NULL;
			(void)t;
		}
		/* the instance's descriptor is the only object: iv_main runs until it is unregistered;
		 * a timer ends the run otherwise */
		{
			static struct iv_timer stop;
			extern void sxh_stop(void *);
			IV_TIMER_INIT(&stop);
			stop.expires.tv_sec = k_now.sec + 5;
			stop.expires.tv_nsec = 0;
			stop.handler = sxh_stop;
			iv_timer_register(&stop);
			iv_main();
			if (iv_timer_registered(&stop))
				iv_timer_unregister(&stop);
		}
		if (ino_registered) {
			sx_assert(reads >= 1, "C20.buffer-never-read");
			check_skipped(nrec);	/* the tail of the buffer matched no live watch */
		}
		/* at most one delivery per record overall */
		{
			int tot = 0;
			for (i = 0; i < nW; i++)
				tot += W[i].deliveries;
			sx_assert(tot <= nrec, "C20.more-deliveries-than-records");
		}
		for (i = 0; i < nW; i++) {
			if (W[i].in_tree) {
				iv_inotify_watch_unregister(W[i].w);
				W[i].in_tree = 0;
			}
			if (W[i].w != NULL) {
				free(W[i].w);
				W[i].w = NULL;
			}
		}
		if (ino_registered)
			unregister_instance();
	}
	iv_deinit();
	sx_assert(k_count_open(1) == 0, "C18.descriptor-leak-after-deinit");
	sx_leak_check(0);
	sx_cover("inotify.complete-run");
}

void sxh_stop(void *c)
{
	if (ino_registered) {
		/* let iv_main return: drop the instance's descriptor from the loop by quitting */
		iv_quit();
	}
}
