#!/usr/bin/env python3
"""Run a property's checks against /repo with one seeded change applied.

usage: seedtest.py <seed-dir> [--tier quick|thorough] [--scratch] [--primary-only]
Default: git -C /repo apply <seed>/patch.diff, run ./check <property>, git -C /repo checkout -- . (as the brief
prescribes).  --scratch runs against a throw-away copy of /repo instead (IVSX_REPO), which leaves /repo untouched
while a background run is using it; the copy is removed afterwards."""
import json
import os
import shutil
import subprocess
import sys
import tempfile

HERE = os.path.dirname(os.path.abspath(__file__))


def main():
    seed = os.path.abspath(sys.argv[1])
    tier = 'quick'
    scratch = '--scratch' in sys.argv
    if '--tier' in sys.argv:
        tier = sys.argv[sys.argv.index('--tier') + 1]
    meta = json.load(open(os.path.join(seed, 'meta.json')))
    props = [meta['property']] + meta.get('also_check', [])
    if '--primary-only' in sys.argv:
        props = props[:1]
    patch = os.path.join(seed, 'patch.diff')
    env = dict(os.environ)
    repo = '/repo'
    tmp = None
    if scratch:
        tmp = tempfile.mkdtemp(prefix='seedrepo-')
        repo = os.path.join(tmp, 'repo')
        subprocess.check_call(['rsync', '-a', '--exclude', '.git', '/repo/', repo + '/'])
        subprocess.check_call(['git', 'init', '-q'], cwd=repo)
        env['IVSX_REPO'] = repo
        env['IVSX_EVIDENCE_DIR'] = os.path.join(tmp, 'evidence')
    rc_all = {}
    try:
        subprocess.check_call(['git', 'apply', '--whitespace=nowarn', patch], cwd=repo)
        for p in props:
            r = subprocess.run([os.path.join(HERE, 'check'), p, '--tier', tier], cwd=HERE, env=env,
                               stdout=subprocess.PIPE, stderr=subprocess.STDOUT, text=True)
            lines = [l for l in r.stdout.splitlines() if l.startswith(('VIOLATION', '  oracle', 'INCONCLUSIVE', 'VACUOUS',
                                                                       'MACHINERY', 'KNOWN', p + ' '))]
            print('\n'.join(lines[:12]))
            rc_all[p] = r.returncode
    finally:
        if scratch:
            shutil.rmtree(tmp, ignore_errors=True)
        else:
            subprocess.call(['git', 'checkout', '--', '.'], cwd='/repo')
    print('RESULT', json.dumps(rc_all))
    caught = any(v == 1 for v in rc_all.values())
    return 0 if caught else 3


if __name__ == '__main__':
    sys.exit(main())
