#!/bin/bash
# confirm_seed.sh C12 : re-verify a sub-agent's seeded change in its scratch worktree, then copy it to /verif/seeded/
id=$1; wt=${WTROOT:-/tmp/wt}/$id
cd $wt || exit 9
git checkout -q -- src; make -s >/dev/null 2>&1
echo "--- without the change:"; ( cd SEED && timeout 300 bash ./run.sh >/tmp/$id.clean.log 2>&1 ); rc0=$?; echo "run.sh exit $rc0"
git apply SEED/patch.diff || { echo "patch does not apply"; exit 8; }
make -s >/dev/null 2>&1 || { echo "does not build"; git checkout -q -- src; exit 7; }
echo "--- with the change:"; ( cd SEED && timeout 300 bash ./run.sh >/tmp/$id.seeded.log 2>&1 ); rc1=$?; echo "run.sh exit $rc1"; tail -3 /tmp/$id.seeded.log | cut -c1-200
echo "--- make check with the change:"; make check 2>&1 | grep -E "^# (PASS|FAIL|ERROR)" | tr '\n' ' '; echo
git checkout -q -- src; make -s >/dev/null 2>&1
mkdir -p /verif/seeded/${SEEDNAME:-$id}
cp SEED/patch.diff /verif/seeded/${SEEDNAME:-$id}/; for f in SEED/*.c SEED/run.sh SEED/NOTES.md SEED/*.sh; do [ -f "$f" ] && cp "$f" /verif/seeded/${SEEDNAME:-$id}/; done
echo "clean=$rc0 seeded=$rc1"
