"""setup-time self test: the interpreter's concrete and symbolic integer semantics agree with each other."""
import random
import sys
import z3
sys.path.insert(0, '.')
from ivsx.core import sgn

random.seed(1)
ok = True
for bits in (8, 16, 32, 64):
    mask = (1 << bits) - 1
    for _ in range(200):
        a = random.getrandbits(bits)
        b = random.getrandbits(bits)
        A = z3.BitVecVal(a, bits)
        B = z3.BitVecVal(b, bits)
        exp = {'add': (a + b) & mask, 'sub': (a - b) & mask, 'mul': (a * b) & mask, 'and': a & b, 'or': a | b,
               'xor': a ^ b}
        got = {'add': A + B, 'sub': A - B, 'mul': A * B, 'and': A & B, 'or': A | B, 'xor': A ^ B}
        for k in exp:
            if z3.simplify(got[k]).as_long() != exp[k]:
                print('MISMATCH', k, bits, a, b)
                ok = False
        if z3.is_true(z3.simplify(A < B)) != (sgn(a, bits) < sgn(b, bits)):
            print('MISMATCH slt', bits, a, b)
            ok = False
# the integer translation agrees with bit-vector semantics on random closed terms
from ivsx.bv2int import Translator
for _ in range(300):
    bits = random.choice((8, 32, 64))
    x = z3.BitVec('x', bits)
    y = z3.BitVec('y', bits)
    c = random.getrandbits(bits)
    terms = [x + y, x - y, x * 3, z3.SignExt(8, x + y), z3.ZeroExt(8, x - y), (x + c) / 7, z3.URem(x, 100),
             z3.UDiv(x + y, 10), z3.SRem(x - y, 100), (x - y) >> 2, z3.LShR(x + y, 3), (x + 1) << 2, ~x + y, z3.Extract(bits // 2 - 1, 0, x * 5 + y)]
    t = random.choice(terms)
    xv = random.getrandbits(bits)
    yv = random.getrandbits(bits)
    want = z3.simplify(z3.substitute(t, (x, z3.BitVecVal(xv, bits)), (y, z3.BitVecVal(yv, bits)))).as_long()
    tr = Translator()
    try:
        it, lo, hi = tr.tv(t)
    except Exception as e:
        if type(e).__name__ == 'Unsupported':
            continue
        raise
    s = z3.Solver()
    for sc in tr.side.values():
        s.add(sc)
    ix = tr.vars[x.get_id()][0] if x.get_id() in tr.vars else None
    iy = tr.vars[y.get_id()][0] if y.get_id() in tr.vars else None
    if ix is not None:
        s.add(ix == sgn(xv, bits))
    if iy is not None:
        s.add(iy == sgn(yv, bits))
    assert s.check() == z3.sat
    got = s.model().eval(it, model_completion=True).as_long()
    w = t.size()
    if got != sgn(want, w) or not (lo <= got <= hi):
        print('TRANSLATION MISMATCH', t, xv, yv, got, sgn(want, w), lo, hi)
        ok = False
print('selftest', 'ok' if ok else 'FAILED')
sys.exit(0 if ok else 1)
