/* Model of the kernel interfaces ivykis uses: descriptor table, pipes, eventfd,
 * timerfd, epoll, poll/ppoll, clock, misc.  Contract = the man pages; every
 * function here is part of the trusted base and is listed in the evidence. */
#include <errno.h>
#include <fcntl.h>
#include <stdlib.h>
#include <string.h>
#include <unistd.h>
#include <signal.h>
#include <sys/ioctl.h>
#include <sys/resource.h>
#include <sys/socket.h>
#include <sys/syscall.h>
#include <sys/time.h>
#include <sys/timerfd.h>
#include <sys/inotify.h>
#include <sys/eventfd.h>
#include "kmodel.h"
#include "pmodel.h"

struct kfd kfds[KMAXFD];
struct kpipe kpipes[KMAXOBJ];
struct keventfd keventfds[KMAXOBJ];
struct ktimerfd ktimerfds[KMAXOBJ];
struct kepoll kepolls[KMAXOBJ];

struct ktime k_now = { 1000, 0 };
struct ktime k_last_wait_return = { 1000, 0 };	/* kernel time when the last wait returned */
int k_clock_symbolic;
int k_clock_reads;
int k_sys_mode[KSYS_MAX];
int k_sys_calls[KSYS_MAX];
int k_sys_fail_from[KSYS_MAX];	/* >0: ENOSYS from that call (1-based) on */
int k_eintr_budget;
int k_eintr_io;
int k_fd_limit = KMAXFD;
int k_pipe_cap = 4;
int k_harness_ctx;
int k_order_choice;
const char *k_env_exclude;
int k_epoll_ctl_fail_fd = -1;
int k_nofile_limit = 64;
int k_sched_all;
int k_nwaits, k_nwaits_blocking;

void (*k_wait_entry_hook)(struct kwait_info *wi);
int (*k_idle_hook)(struct kwait_info *wi);
void (*k_wait_return_hook)(struct kwait_info *wi, int nready);
long (*k_read_hook)(int fd, void *buf, unsigned long n);
long (*k_write_hook)(int fd, const void *buf, unsigned long n);
void (*k_close_hook)(int fd);
void (*k_clock_hook)(void);
long (*k_splice_hook)(int fdin, int fdout, unsigned long len);

char sx_empty_string[1];

/* ------------------------------------------------------------ helpers */
static int sys_absent(int which)
{
	int m = k_sys_mode[which];

	k_sys_calls[which]++;
	if (m == 0 && k_sys_fail_from[which] > 0 && k_sys_calls[which] >= k_sys_fail_from[which]) {
		sx_cover("env.syscall-disappears-mid-run");
		errno = ENOSYS;
		return 1;
	}
	if (m == 0)
		return 0;
	if (m == 2) {
		/* may disappear at this call (and stays away) */
		if (sx_choose(2) == 0)
			return 0;
		k_sys_mode[which] = 1;
		sx_cover("env.syscall-disappears-mid-run");
		errno = ENOSYS;
		return 1;
	}
	if (m == 3)
		errno = EPERM;
	else if (m == 4)
		errno = EINVAL;
	else
		errno = ENOSYS;
	return 1;
}

static int eintr_now(void)
{
	if (k_eintr_budget > 0 && sx_choose(2) == 1) {
		k_eintr_budget--;
		sx_cover("env.eintr-injected");
		errno = EINTR;
		return 1;
	}
	return 0;
}

static int fd_alloc(int kind, int obj)
{
	int i;

	for (i = 3; i < KMAXFD && i < k_fd_limit; i++) {
		if (kfds[i].kind == K_FREE) {
			memset(&kfds[i], 0, sizeof(kfds[i]));
			kfds[i].kind = kind;
			kfds[i].obj = obj;
			kfds[i].by_lib = !k_harness_ctx;
			kfds[i].creator = sx_tid();
			return i;
		}
	}
	errno = EMFILE;
	return -1;
}

static int fd_ok(int fd)
{
	return fd >= 0 && fd < KMAXFD && kfds[fd].kind != K_FREE;
}

int k_new_generic(void)
{
	int save = k_harness_ctx, fd;

	k_harness_ctx = 1;
	fd = fd_alloc(K_GENERIC, 0);
	k_harness_ctx = save;
	return fd;
}

int k_count_open(int by_lib_only)
{
	int i, n = 0;

	for (i = 0; i < KMAXFD; i++)
		if (kfds[i].kind != K_FREE && (!by_lib_only || kfds[i].by_lib))
			n++;
	return n;
}

long k_time_le(const struct ktime *a, const struct ktime *b)
{
	return (a->sec < b->sec) | ((a->sec == b->sec) & (a->nsec <= b->nsec));
}

long k_time_lt(const struct ktime *a, const struct ktime *b)
{
	return (a->sec < b->sec) | ((a->sec == b->sec) & (a->nsec < b->nsec));
}

void k_time_fresh(struct ktime *t, const char *name)
{
	struct ktime n;

	/* k_clock_symbolic: 1 = (sec,nsec) both unknown; 2 = within the current second, nsec unknown;
	 * 3 = whole seconds, sec unknown */
	if (k_clock_symbolic == 2) {
		n.sec = k_now.sec;
		n.nsec = sx_long(name, 0, 999999999);
	} else if (k_clock_symbolic == 3) {
		n.sec = sx_long(name, 0, (1L << 31) - 1);
		n.nsec = 0;
	} else {
		n.sec = sx_long(name, 0, (1L << 31) - 1);
		n.nsec = sx_long(name, 0, 999999999);
	}
	sx_assume(k_time_le(&k_now, &n));
	k_now = n;
	*t = n;
}

/* readiness ground truth of a descriptor: four 0/1 values (unknowns for generic descriptors) */
void k_truth4(int fd, struct ktruth *t)
{
	struct kfd *f = &kfds[fd];

	t->in = t->out = t->hup = t->err = 0;
	switch (f->kind) {
	case K_GENERIC:
		t->in = f->rd;
		t->out = f->wr;
		t->hup = f->hup;
		t->err = f->err;
		break;
	case K_PIPE_R:
		if (kpipes[f->obj].count > 0)
			t->in = 1;
		if (!kpipes[f->obj].w_open)
			t->hup = 1;
		break;
	case K_PIPE_W:
		if (kpipes[f->obj].count < kpipes[f->obj].cap)
			t->out = 1;
		if (!kpipes[f->obj].r_open)
			t->err = 1;
		break;
	case K_EVENTFD:
		if (keventfds[f->obj].counter > 0)
			t->in = 1;
		if (keventfds[f->obj].counter < 0xfffffffffffffffeULL)
			t->out = 1;
		break;
	case K_TIMERFD: {
		struct ktimerfd *tf = &ktimerfds[f->obj];
		if (tf->armed) {
			struct ktime a = { tf->sec, tf->nsec };
			if (k_time_le(&a, &k_now))
				t->in = 1;
		}
		break;
	}
	case K_INOTIFY:
		t->in = f->rd;
		break;
	case K_NULL:
		t->in = t->out = 1;
		break;
	default:
		break;
	}
}

int k_truth(int fd)
{
	struct ktruth t;

	k_truth4(fd, &t);
	return (int)(t.in * KR_IN + t.out * KR_OUT + t.hup * KR_HUP + t.err * KR_ERR);
}

/* ------------------------------------------------------------ clock */
int clock_gettime(clockid_t clk, struct timespec *ts)
{
	struct ktime t;

	k_clock_reads++;
	if (k_clock_symbolic)
		k_time_fresh(&t, "clock");
	else
		t = k_now;
	ts->tv_sec = t.sec;
	ts->tv_nsec = t.nsec;
	if (k_clock_hook)
		k_clock_hook();
	return 0;
}

int gettimeofday(struct timeval *tv, void *tz)
{
	tv->tv_sec = k_now.sec;
	tv->tv_usec = k_now.nsec / 1000;
	return 0;
}

/* ------------------------------------------------------------ descriptors */
int close(int fd)
{
	struct kfd *f;
	int i, j;

	if (k_sched_all)
		sx_sched();
	if (!fd_ok(fd)) {
		sx_fail("env.close-of-closed-descriptor");
		errno = EBADF;
		return -1;
	}
	f = &kfds[fd];
	if (k_close_hook)
		k_close_hook(fd);
	/* another descriptor may name the same open file (dup2): only the last close counts */
	for (i = 0; i < KMAXFD; i++)
		if (i != fd && kfds[i].kind == f->kind && kfds[i].obj == f->obj &&
		    f->kind != K_GENERIC && f->kind != K_NULL)
			break;
	if (i < KMAXFD) {
		f->kind = K_FREE;
		return 0;
	}
	switch (f->kind) {
	case K_PIPE_R:
		kpipes[f->obj].r_open = 0;
		break;
	case K_PIPE_W:
		kpipes[f->obj].w_open = 0;
		break;
	case K_EVENTFD:
		keventfds[f->obj].used = 0;
		break;
	case K_TIMERFD:
		ktimerfds[f->obj].used = 0;
		break;
	case K_EPOLL:
		kepolls[f->obj].used = 0;
		kepolls[f->obj].n = 0;
		break;
	default:
		break;
	}
	if ((f->kind == K_PIPE_R || f->kind == K_PIPE_W) &&
	    !kpipes[f->obj].r_open && !kpipes[f->obj].w_open)
		kpipes[f->obj].used = 0;
	/* closing the last reference removes the descriptor from every epoll set */
	for (i = 0; i < KMAXOBJ; i++) {
		struct kepoll *ep = &kepolls[i];
		if (!ep->used)
			continue;
		for (j = 0; j < ep->n; j++) {
			if (ep->it[j].fd == fd) {
				ep->it[j] = ep->it[ep->n - 1];
				ep->n--;
				j--;
			}
		}
	}
	f->kind = K_FREE;
	return 0;
}

int sxm_fcntl(int fd, int cmd, long arg)
{
	if (!fd_ok(fd)) {
		errno = EBADF;
		return -1;
	}
	switch (cmd) {
	case F_GETFD:
		return kfds[fd].cloexec ? FD_CLOEXEC : 0;
	case F_SETFD:
		kfds[fd].cloexec = !!(arg & FD_CLOEXEC);
		return 0;
	case F_GETFL:
		return kfds[fd].nonblock ? O_NONBLOCK : 0;
	case F_SETFL:
		kfds[fd].nonblock = !!(arg & O_NONBLOCK);
		return 0;
	}
	errno = EINVAL;
	return -1;
}

int setsockopt(int fd, int level, int name, const void *val, socklen_t len)
{
	if (!fd_ok(fd)) {
		errno = EBADF;
		return -1;
	}
	errno = ENOTSOCK;
	return -1;
}

int shutdown(int fd, int how)
{
	if (k_write_hook)
		return (int)k_write_hook(fd, NULL, (unsigned long)(0x5D000000 | how));
	return 0;
}

int sxm_ioctl(int fd, unsigned long req, long arg)
{
	if (req == FIONREAD && fd_ok(fd) && kfds[fd].kind == K_PIPE_R) {
		*(int *)arg = kpipes[kfds[fd].obj].count;
		return 0;
	}
	if (k_read_hook && req == FIONREAD)
		return (int)k_read_hook(fd, (void *)arg, 0xF10EADUL);
	errno = EINVAL;
	return -1;
}

static int do_pipe(int fd[2], int flags)
{
	int i, r, w;

	for (i = 0; i < KMAXOBJ; i++)
		if (!kpipes[i].used)
			break;
	if (i == KMAXOBJ) {
		errno = ENFILE;
		return -1;
	}
	r = fd_alloc(K_PIPE_R, i);
	if (r < 0)
		return -1;
	w = fd_alloc(K_PIPE_W, i);
	if (w < 0) {
		kfds[r].kind = K_FREE;
		return -1;
	}
	memset(&kpipes[i], 0, sizeof(kpipes[i]));
	kpipes[i].used = 1;
	kpipes[i].cap = k_pipe_cap;
	kpipes[i].r_open = kpipes[i].w_open = 1;
	kpipes[i].rfd = r;
	kpipes[i].wfd = w;
	if (flags & O_NONBLOCK)
		kfds[r].nonblock = kfds[w].nonblock = 1;
	if (flags & O_CLOEXEC)
		kfds[r].cloexec = kfds[w].cloexec = 1;
	fd[0] = r;
	fd[1] = w;
	return 0;
}

int pipe(int fd[2])
{
	return do_pipe(fd, 0);
}

int pipe2(int fd[2], int flags)
{
	if (sys_absent(KSYS_PIPE2))
		return -1;
	return do_pipe(fd, flags);
}

static int do_eventfd(unsigned int initval, int flags)
{
	int i, fd;

	for (i = 0; i < KMAXOBJ; i++)
		if (!keventfds[i].used)
			break;
	if (i == KMAXOBJ) {
		errno = ENFILE;
		return -1;
	}
	fd = fd_alloc(K_EVENTFD, i);
	if (fd < 0)
		return -1;
	keventfds[i].used = 1;
	keventfds[i].counter = initval;
	if (flags & EFD_NONBLOCK)
		kfds[fd].nonblock = 1;
	if (flags & EFD_CLOEXEC)
		kfds[fd].cloexec = 1;
	return fd;
}

static int do_epoll_create(int cloexec)
{
	int i, fd;

	for (i = 0; i < KMAXOBJ; i++)
		if (!kepolls[i].used)
			break;
	if (i == KMAXOBJ) {
		errno = ENFILE;
		return -1;
	}
	fd = fd_alloc(K_EPOLL, i);
	if (fd < 0)
		return -1;
	kepolls[i].used = 1;
	kepolls[i].n = 0;
	kfds[fd].cloexec = cloexec;
	return fd;
}

int epoll_create(int size)
{
	if (sys_absent(KSYS_EPOLL_CREATE))
		return -1;
	return do_epoll_create(0);
}

int epoll_create1(int flags)
{
	if (sys_absent(KSYS_EPOLL_CREATE1))
		return -1;
	return do_epoll_create(!!(flags & EPOLL_CLOEXEC));
}

long sxm_syscall(long nr, long a, long b, long c, long d, long e)
{
	switch (nr) {
	case SYS_epoll_create1:
		return epoll_create1((int)a);
	case SYS_eventfd2:
		if (sys_absent(KSYS_EVENTFD2))
			return -1;
		return do_eventfd((unsigned int)a, (int)b);
	case SYS_eventfd:
		if (sys_absent(KSYS_EVENTFD))
			return -1;
		return do_eventfd((unsigned int)a, 0);
	case SYS_pipe2:
		return pipe2((int *)a, (int)b);
	case SYS_gettid:
		return 1000 + sx_tid();
	}
	sx_fail("env.unmodelled-syscall-number");
	errno = ENOSYS;
	return -1;
}

int timerfd_create(int clk, int flags)
{
	int i, fd;

	if (sys_absent(KSYS_TIMERFD))
		return -1;
	for (i = 0; i < KMAXOBJ; i++)
		if (!ktimerfds[i].used)
			break;
	if (i == KMAXOBJ) {
		errno = ENFILE;
		return -1;
	}
	fd = fd_alloc(K_TIMERFD, i);
	if (fd < 0)
		return -1;
	memset(&ktimerfds[i], 0, sizeof(ktimerfds[i]));
	ktimerfds[i].used = 1;
	kfds[fd].nonblock = !!(flags & TFD_NONBLOCK);
	kfds[fd].cloexec = !!(flags & TFD_CLOEXEC);
	return fd;
}

int timerfd_settime(int fd, int flags, const struct itimerspec *nv, struct itimerspec *ov)
{
	struct ktimerfd *tf;

	if (!fd_ok(fd) || kfds[fd].kind != K_TIMERFD) {
		errno = EBADF;
		return -1;
	}
	if (!(flags & TFD_TIMER_ABSTIME))
		sx_fail("env.timerfd-relative-not-modelled");
	tf = &ktimerfds[kfds[fd].obj];
	if ((nv->it_value.tv_sec == 0) & (nv->it_value.tv_nsec == 0)) {
		tf->armed = 0;
	} else {
		tf->armed = 1;
		tf->sec = nv->it_value.tv_sec;
		tf->nsec = nv->it_value.tv_nsec;
	}
	tf->expirations = 0;
	return 0;
}

/* ------------------------------------------------------------ read / write */
ssize_t read(int fd, void *buf, size_t n)
{
	struct kfd *f;

	sx_sched();
	p_maybe_deliver();
	if (!fd_ok(fd)) {
		sx_fail("env.read-on-closed-descriptor");
		errno = EBADF;
		return -1;
	}
	if (k_eintr_io && eintr_now())
		return -1;
	f = &kfds[fd];
	switch (f->kind) {
	case K_EVENTFD: {
		struct keventfd *e = &keventfds[f->obj];
		if (n < 8) {
			errno = EINVAL;
			return -1;
		}
		if (e->counter == 0) {
			if (!f->nonblock)
				sx_fail("env.blocking-read-would-block-forever");
			errno = EAGAIN;
			return -1;
		}
		sx_note("k:eventfd-read", (long)e->counter);
		*(uint64_t *)buf = e->counter;
		e->counter = 0;
		sx_hb_acq(e);
		return 8;
	}
	case K_PIPE_R: {
		struct kpipe *p = &kpipes[f->obj];
		size_t i, m;
		if (p->count == 0) {
			if (!p->w_open)
				return 0;
			if (!f->nonblock)
				sx_fail("env.blocking-read-would-block-forever");
			errno = EAGAIN;
			return -1;
		}
		m = p->count < (int)n ? (size_t)p->count : n;
		if (p->cap <= KPIPE_MAXCAP) {
			for (i = 0; i < m; i++) {
				((unsigned char *)buf)[i] = p->data[p->head];
				p->head = (p->head + 1) % KPIPE_MAXCAP;
			}
		}
		/* larger pipes: only the byte count is modelled (it may be a solver unknown); the
		 * caller's buffer is left untouched */
		p->count -= (int)m;
		sx_hb_acq(p);
		return (ssize_t)m;
	}
	case K_TIMERFD: {
		struct ktimerfd *tf = &ktimerfds[f->obj];
		struct ktime a = { tf->sec, tf->nsec };
		if (n < 8) {
			errno = EINVAL;
			return -1;
		}
		if (!tf->armed || !k_time_le(&a, &k_now)) {
			errno = EAGAIN;
			return -1;
		}
		tf->armed = 0;
		*(uint64_t *)buf = 1;
		return 8;
	}
	default:
		if (k_read_hook)
			return k_read_hook(fd, buf, n);
		break;
	}
	sx_fail("env.read-not-modelled-for-this-descriptor");
	errno = EINVAL;
	return -1;
}

ssize_t write(int fd, const void *buf, size_t n)
{
	struct kfd *f;

	sx_sched();
	p_maybe_deliver();
	if (!fd_ok(fd)) {
		sx_fail("env.write-on-closed-descriptor");
		errno = EBADF;
		return -1;
	}
	if (k_eintr_io && eintr_now())
		return -1;
	f = &kfds[fd];
	switch (f->kind) {
	case K_EVENTFD: {
		struct keventfd *e = &keventfds[f->obj];
		uint64_t v;
		if (n != 8) {
			/* a 1-byte "pipe style" write to an eventfd is EINVAL: the post is lost */
			errno = EINVAL;
			return -1;
		}
		v = *(const uint64_t *)buf;
		if (e->counter + v < e->counter || e->counter + v == 0xffffffffffffffffULL) {
			if (!f->nonblock)
				sx_fail("env.post-would-block");
			errno = EAGAIN;
			return -1;
		}
		sx_hb_rel(e);
		e->counter += v;
		sx_note("k:eventfd-write", fd);
		return 8;
	}
	case K_PIPE_W: {
		struct kpipe *p = &kpipes[f->obj];
		size_t i, m;
		if (!p->r_open) {
			errno = EPIPE;
			return -1;
		}
		if (p->count >= p->cap) {
			sx_cover("env.pipe-full");
			if (!f->nonblock)
				sx_fail("env.post-would-block");
			errno = EAGAIN;
			return -1;
		}
		m = (size_t)(p->cap - p->count) < n ? (size_t)(p->cap - p->count) : n;
		sx_hb_rel(p);
		if (p->cap <= KPIPE_MAXCAP)
			for (i = 0; i < m; i++)
				p->data[(p->head + p->count + i) % KPIPE_MAXCAP] = ((const unsigned char *)buf)[i];
		p->count += (int)m;
		return (ssize_t)m;
	}
	case K_NULL:
		return (ssize_t)n;
	default:
		if (k_write_hook)
			return k_write_hook(fd, buf, n);
		break;
	}
	sx_fail("env.write-not-modelled-for-this-descriptor");
	errno = EINVAL;
	return -1;
}

/* ------------------------------------------------------------ epoll */
static struct kepoll *ep_of(int epfd)
{
	if (!fd_ok(epfd) || kfds[epfd].kind != K_EPOLL)
		return NULL;
	return &kepolls[kfds[epfd].obj];
}

int k_epoll_interest(int epfd, int fd, uint32_t *events, int *disabled)
{
	struct kepoll *ep = ep_of(epfd);
	int j;

	if (ep == NULL)
		return 0;
	for (j = 0; j < ep->n; j++) {
		if (ep->it[j].fd == fd) {
			if (events)
				*events = ep->it[j].events;
			if (disabled)
				*disabled = ep->it[j].disabled;
			return 1;
		}
	}
	return 0;
}

int epoll_ctl(int epfd, int op, int fd, struct epoll_event *ev)
{
	struct kepoll *ep;
	int j;

	/* a set is only ever waited on by its creator: changes made by the creator itself
	 * commute with everything other threads do */
	if (k_sched_all || (epfd >= 0 && epfd < KMAXFD && kfds[epfd].creator != sx_tid()))
		sx_sched();
	p_maybe_deliver();
	ep = ep_of(epfd);
	if (ep == NULL || !fd_ok(fd)) {
		errno = EBADF;
		return -1;
	}
	if (k_eintr_io && eintr_now())
		return -1;
	for (j = 0; j < ep->n; j++)
		if (ep->it[j].fd == fd)
			break;
	switch (op) {
	case EPOLL_CTL_ADD:
		if (j < ep->n) {
			errno = EEXIST;
			return -1;
		}
		if (fd == k_epoll_ctl_fail_fd) {
			errno = EPERM;
			return -1;
		}
		if (ep->n == KMAXITEMS) {
			errno = ENOSPC;
			return -1;
		}
		ep->it[ep->n].fd = fd;
		ep->it[ep->n].events = ev->events;
		ep->it[ep->n].data = ev->data.u64;
		ep->it[ep->n].disabled = 0;
		ep->n++;
		sx_hb_rel(ep);
		return 0;
	case EPOLL_CTL_MOD:
		if (j == ep->n) {
			errno = ENOENT;
			return -1;
		}
		ep->it[j].events = ev->events;
		ep->it[j].data = ev->data.u64;
		ep->it[j].disabled = 0;
		sx_hb_rel(ep);
		return 0;
	case EPOLL_CTL_DEL:
		if (j == ep->n) {
			errno = ENOENT;
			return -1;
		}
		ep->it[j] = ep->it[ep->n - 1];
		ep->n--;
		return 0;
	}
	errno = EINVAL;
	return -1;
}

/* ------------------------------------------------------------ the wait core */
#define KMAXREADY 16
struct kready {
	int n;
	int idx[KMAXREADY];		/* item index (epoll) or array index (poll) */
	uint32_t rev[KMAXREADY];	/* epoll event bits / poll revents */
};

/* epoll/poll share the bit layout IN=1 OUT=4 ERR=8 HUP=0x10; linear in the
 * (possibly unknown) 0/1 truth values, no bitwise operations on unknowns */
static uint32_t revents_of(uint32_t want, const struct ktruth *t)
{
	long r = 0;

	if (want & EPOLLIN)
		r += t->in * EPOLLIN;
	if (want & EPOLLOUT)
		r += t->out * EPOLLOUT;
	r += t->hup * EPOLLHUP;
	r += t->err * EPOLLERR;
	return (uint32_t)r;
}

static void collect_ready(struct kwait_info *wi, struct kready *kr)
{
	struct ktruth t;
	int j;

	kr->n = 0;
	if (wi->epfd >= 0) {
		struct kepoll *ep = ep_of(wi->epfd);
		for (j = 0; j < ep->n; j++) {
			uint32_t r;
			if (ep->it[j].disabled)
				continue;
			k_truth4(ep->it[j].fd, &t);
			r = revents_of(ep->it[j].events, &t);
			if (r != 0 && kr->n < KMAXREADY) {
				kr->idx[kr->n] = j;
				kr->rev[kr->n] = r;
				kr->n++;
			}
		}
	} else {
		for (j = 0; j < wi->nfds; j++) {
			struct pollfd *p = &wi->pfds[j];
			uint32_t r = 0;
			if (p->fd < 0)
				continue;
			if (!fd_ok(p->fd)) {
				r = POLLNVAL;
			} else {
				k_truth4(p->fd, &t);
				r = revents_of((uint32_t)p->events, &t);
			}
			if (r != 0 && kr->n < KMAXREADY) {
				kr->idx[kr->n] = j;
				kr->rev[kr->n] = r;
				kr->n++;
			}
		}
	}
}

static int earliest_timerfd(struct kwait_info *wi, struct ktime *out);

static int kwait_pred(void *arg)
{
	struct kwait_info *wi = arg;
	struct kready kr;

	if (p_signal_deliverable())
		return 1;
	collect_ready(wi, &kr);
	return kr.n > 0;
}

/* earliest armed timer descriptor in the interest set; returns 0 if none */
static int earliest_timerfd(struct kwait_info *wi, struct ktime *out)
{
	int j, found = 0;

	if (wi->epfd >= 0) {
		struct kepoll *ep = ep_of(wi->epfd);
		for (j = 0; j < ep->n; j++) {
			struct kfd *f = &kfds[ep->it[j].fd];
			if (f->kind == K_TIMERFD && ktimerfds[f->obj].armed && !ep->it[j].disabled &&
			    (ep->it[j].events & EPOLLIN)) {
				struct ktime a = { ktimerfds[f->obj].sec, ktimerfds[f->obj].nsec };
				if (!found || k_time_lt(&a, out))
					*out = a;
				found = 1;
			}
		}
	}
	return found;
}

static void time_add(struct ktime *t, long sec, long nsec)
{
	t->sec += sec;
	t->nsec += nsec;
	if (t->nsec >= 1000000000) {
		t->nsec -= 1000000000;
		t->sec++;
	}
}

static int kwait(struct kwait_info *wi, struct epoll_event *evs)
{
	struct kready kr;
	struct ktime entry, deadline, tfd;
	int i, n, start, rev, rounds = 0;

	k_nwaits++;
	sx_sched();
	if (p_deliver_signals()) {
		errno = EINTR;
		return -1;
	}
	{
		struct ktime tmp;
		/* time passes between the last reading and the wait: only observable
		 * through an armed timer descriptor */
		if (k_clock_symbolic && wi->epfd >= 0 && earliest_timerfd(wi, &tmp))
			k_time_fresh(&entry, "kwait-entry");
		else
			entry = k_now;
	}
	if (k_wait_entry_hook)
		k_wait_entry_hook(wi);
	deadline = entry;
	if (wi->has_timeout)
		time_add(&deadline, wi->to_sec, wi->to_nsec);
	if (eintr_now()) {
		/* the signal may arrive after part of the timeout has elapsed */
		if (k_clock_symbolic && wi->has_timeout) {
			struct ktime t;
			k_time_fresh(&t, "eintr-at");
			sx_assume(k_time_le(&t, &deadline));
		}
		k_last_wait_return = k_now;
		return -1;
	}
again:
	collect_ready(wi, &kr);
	if (kr.n == 0) {
		int have_tfd;

		if (wi->has_timeout && (wi->to_sec == 0) & (wi->to_nsec == 0))
			goto out;
		if (rounds++ > 4)
			sx_fail("env.wait-model-livelock");
		if (k_idle_hook && k_idle_hook(wi))
			goto again;
		k_nwaits_blocking++;
		have_tfd = earliest_timerfd(wi, &tfd);
		if (sx_nthreads() > 1 || p_signal_possible()) {
			/* concrete-clock world: other threads / signals can wake us */
			long dl = -1;
			int r;
			if (wi->has_timeout)
				dl = deadline.sec * 1000000000L + deadline.nsec;
			if (have_tfd) {
				long t2 = tfd.sec * 1000000000L + tfd.nsec;
				if (dl < 0 || t2 < dl)
					dl = t2;
			}
			r = sx_block_until(kwait_pred, wi, dl);
			if (p_deliver_signals()) {
				errno = EINTR;
				return -1;
			}
			if (r == 0) {
				struct ktime d = { dl / 1000000000L, dl % 1000000000L };
				if (k_time_lt(&k_now, &d))
					k_now = d;
				if (have_tfd)
					goto again;
				goto out;
			}
			goto again;
		}
		/* single thread, nothing can happen but the passage of time */
		if (have_tfd && (!wi->has_timeout || k_time_le(&tfd, &deadline))) {
			if (k_time_lt(&k_now, &tfd))
				k_now = tfd;
			sx_cover("env.woken-by-timerfd");
			goto again;
		}
		if (!wi->has_timeout) {
			sx_fail("env.blocked-forever");
			return 0;
		}
		/* timed out: the kernel returns at or after the deadline */
		if (k_time_lt(&k_now, &deadline))
			k_now = deadline;
		sx_cover("env.wait-timed-out");
		goto out;
	}
	/* order of the returned events */
	n = kr.n;
	start = 0;
	rev = 0;
	if (k_order_choice && n >= 2) {
		start = sx_choose(n);
		if (n >= 3)
			rev = sx_choose(2);
	}
	if (wi->epfd >= 0) {
		struct kepoll *ep = ep_of(wi->epfd);
		int m = n < wi->maxevents ? n : wi->maxevents;
		if (m < n)
			sx_cover("env.maxevents-truncated");
		for (i = 0; i < m; i++) {
			int k = rev ? (start + n - i) % n : (start + i) % n;
			struct kepoll_item *it = &ep->it[kr.idx[k]];
			evs[i].events = kr.rev[k];
			evs[i].data.u64 = it->data;
			if (it->events & EPOLLONESHOT)
				it->disabled = 1;
		}
		sx_hb_acq(ep);
		kr.n = m;
	} else {
		for (i = 0; i < wi->nfds; i++)
			wi->pfds[i].revents = 0;
		for (i = 0; i < n; i++)
			wi->pfds[kr.idx[i]].revents = (short)kr.rev[i];
	}
out:
	k_last_wait_return = k_now;
	sx_note("k:wait-returns", kr.n);
	if (kr.n == 0 && wi->epfd < 0) {
		/* poll() writes every revents field, also when nothing is ready */
		for (i = 0; i < wi->nfds; i++)
			wi->pfds[i].revents = 0;
	}
	if (k_wait_return_hook)
		k_wait_return_hook(wi, kr.n);
	return kr.n;
}

int epoll_wait(int epfd, struct epoll_event *evs, int maxevents, int timeout)
{
	struct kwait_info wi;

	if (ep_of(epfd) == NULL) {
		errno = EBADF;
		return -1;
	}
	memset(&wi, 0, sizeof(wi));
	wi.kind = 0;
	wi.epfd = epfd;
	wi.maxevents = maxevents;
	wi.to_ms = timeout;
	if (timeout >= 0) {
		wi.has_timeout = 1;
		wi.to_sec = timeout / 1000;
		wi.to_nsec = (long)(timeout % 1000) * 1000000L;
	}
	return kwait(&wi, evs);
}

int epoll_pwait2(int epfd, struct epoll_event *evs, int maxevents, const struct timespec *to,
		 const sigset_t *sigmask)
{
	struct kwait_info wi;

	if (sys_absent(KSYS_EPOLL_PWAIT2))
		return -1;
	if (ep_of(epfd) == NULL) {
		errno = EBADF;
		return -1;
	}
	memset(&wi, 0, sizeof(wi));
	wi.kind = 1;
	wi.epfd = epfd;
	wi.maxevents = maxevents;
	wi.to_ms = -2;
	if (to != NULL) {
		wi.has_timeout = 1;
		wi.to_sec = to->tv_sec;
		wi.to_nsec = to->tv_nsec;
	}
	return kwait(&wi, evs);
}

int poll(struct pollfd *fds, nfds_t nfds, int timeout)
{
	struct kwait_info wi;

	memset(&wi, 0, sizeof(wi));
	wi.kind = 2;
	wi.epfd = -1;
	wi.pfds = fds;
	wi.nfds = (int)nfds;
	wi.to_ms = timeout;
	if (timeout >= 0) {
		wi.has_timeout = 1;
		wi.to_sec = timeout / 1000;
		wi.to_nsec = (long)(timeout % 1000) * 1000000L;
	}
	return kwait(&wi, NULL);
}

int ppoll(struct pollfd *fds, nfds_t nfds, const struct timespec *to, const sigset_t *sigmask)
{
	struct kwait_info wi;

	if (sys_absent(KSYS_PPOLL))
		return -1;
	memset(&wi, 0, sizeof(wi));
	wi.kind = 3;
	wi.epfd = -1;
	wi.pfds = fds;
	wi.nfds = (int)nfds;
	wi.to_ms = -2;
	if (to != NULL) {
		wi.has_timeout = 1;
		wi.to_sec = to->tv_sec;
		wi.to_nsec = to->tv_nsec;
	}
	return kwait(&wi, NULL);
}

/* ------------------------------------------------------------ misc libc */
char *getenv(const char *name)
{
	if (!strcmp(name, "IV_EXCLUDE_POLL_METHOD"))
		return (char *)k_env_exclude;
	return NULL;
}

uid_t geteuid(void)
{
	return 1000;
}

uid_t getuid(void)
{
	return 1000;
}

int getrlimit(__rlimit_resource_t res, struct rlimit *lim)
{
	lim->rlim_cur = (rlim_t)k_nofile_limit;
	lim->rlim_max = (rlim_t)k_nofile_limit;
	return 0;
}

ssize_t splice(int fdin, off64_t *offin, int fdout, off64_t *offout, size_t len, unsigned int flags)
{
	if (sys_absent(KSYS_SPLICE))
		return -1;
	if (k_splice_hook)
		return k_splice_hook(fdin, fdout, len);
	errno = EINVAL;
	return -1;
}

int sxm_open(const char *path, int flags, long mode)
{
	int fd;

	if (strcmp(path, "/dev/null")) {
		errno = ENOENT;
		return -1;
	}
	fd = fd_alloc(K_NULL, 0);
	return fd;
}

int dup2(int oldfd, int newfd)
{
	if (!fd_ok(oldfd) || newfd < 0 || newfd >= KMAXFD) {
		errno = EBADF;
		return -1;
	}
	if (oldfd == newfd)
		return newfd;
	/* model: newfd becomes another name for the same open file */
	kfds[newfd] = kfds[oldfd];
	kfds[newfd].cloexec = 0;
	return newfd;
}
