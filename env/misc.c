/* odds and ends used by the repository's own test programs when they are run on the models */
#include <unistd.h>
unsigned int alarm(unsigned int s) { return 0; }
unsigned int sleep(unsigned int s) { return 0; }
