/* Kernel / libc model shared between env/*.c and the harnesses (ghost access). */
#ifndef KMODEL_H
#define KMODEL_H
#include <stdint.h>
#include <sys/epoll.h>
#include <poll.h>
#include <time.h>
#include "sx.h"

#define KMAXFD		20
#define KMAXOBJ		8
#define KMAXITEMS	8
#define KPIPE_MAXCAP	16

enum { K_FREE = 0, K_GENERIC, K_PIPE_R, K_PIPE_W, K_EVENTFD, K_TIMERFD, K_EPOLL, K_INOTIFY, K_NULL };

/* readiness bits */
#define KR_IN	1
#define KR_OUT	2
#define KR_HUP	4
#define KR_ERR	8

struct kfd {
	int kind;
	int obj;		/* index into the per-kind object table */
	int nonblock;
	int cloexec;
	int by_lib;		/* created by library code (leak accounting) */
	int creator;		/* thread that created it */
	/* K_GENERIC ground truth, may be solver unknowns (0/1) */
	long rd, wr, hup, err;
};

struct kpipe {
	int used;
	int count, cap;
	int r_open, w_open;
	int rfd, wfd;
	unsigned char data[KPIPE_MAXCAP];
	int head;
};

struct keventfd {
	int used;
	uint64_t counter;
};

struct ktimerfd {
	int used;
	int armed;
	long sec, nsec;		/* absolute expiry */
	int expirations;
};

struct kepoll_item {
	int fd;
	uint32_t events;	/* as requested (without the implicit ERR|HUP) */
	uint64_t data;
	int disabled;		/* one-shot fired */
};

struct kepoll {
	int used;
	int n;
	struct kepoll_item it[KMAXITEMS];
};

/* a time instant; sec/nsec may be solver unknowns */
struct ktime {
	long sec, nsec;
};

extern struct kfd kfds[KMAXFD];
extern struct kpipe kpipes[KMAXOBJ];
extern struct keventfd keventfds[KMAXOBJ];
extern struct ktimerfd ktimerfds[KMAXOBJ];
extern struct kepoll kepolls[KMAXOBJ];

/* ---- clock ---- */
extern struct ktime k_last_wait_return;	/* kernel time when the last wait returned (also on EINTR) */
extern struct ktime k_now;		/* model's current time (lower bound for the next reading) */
extern int k_clock_symbolic;		/* 1: readings are fresh unknowns >= k_now; 0: concrete */
extern int k_clock_reads;

/* ---- configuration by the harness ---- */
enum { KSYS_EPOLL_CREATE1, KSYS_EPOLL_CREATE, KSYS_EPOLL_PWAIT2, KSYS_TIMERFD, KSYS_PPOLL, KSYS_EVENTFD2,
       KSYS_EVENTFD, KSYS_PIPE2, KSYS_SPLICE, KSYS_INOTIFY, KSYS_MAX };
/* 0 present, 1 absent (ENOSYS) from the first call, 2 may disappear at any later call,
 * 3 forbidden (EPERM), 4 EINVAL (old eventfd2 flags) */
extern int k_sys_mode[KSYS_MAX];
extern int k_sys_calls[KSYS_MAX];
extern int k_sys_fail_from[KSYS_MAX];
extern int k_eintr_budget;		/* how many more waits/ctl/read/write may fail with EINTR */
extern int k_eintr_io;			/* also interrupt epoll_ctl/read/write */
extern int k_fd_limit;			/* descriptors >= this fail with EMFILE */
extern int k_pipe_cap;
extern int k_harness_ctx;		/* descriptors created now belong to the harness */
extern int k_order_choice;		/* fork over the order of returned events */
extern const char *k_env_exclude;	/* value of IV_EXCLUDE_POLL_METHOD or NULL */
extern int k_epoll_ctl_fail_fd;		/* epoll_ctl ADD on this fd fails with EPERM (-1: none) */
extern int k_nofile_limit;
extern int k_sched_all;			/* 1: every modelled call is a scheduling point; 0: only calls on objects another thread can observe */

/* ---- hooks (function pointers, NULL = default behaviour) ---- */
struct kwait_info {
	int kind;		/* 0 epoll_wait, 1 epoll_pwait2, 2 poll, 3 ppoll */
	int epfd;		/* epoll descriptor or -1 */
	struct pollfd *pfds;	/* poll array or NULL */
	int nfds;
	int has_timeout;	/* 0: wait forever */
	long to_sec, to_nsec;	/* relative timeout (ms calls converted) */
	int to_ms;		/* original ms value for ms-granular calls, else -2 */
	int maxevents;
};
extern void (*k_wait_entry_hook)(struct kwait_info *wi);	/* oracles at wait entry */
extern int (*k_idle_hook)(struct kwait_info *wi);		/* nothing ready: may change the world; !=0 => re-evaluate */
extern void (*k_wait_return_hook)(struct kwait_info *wi, int nready);
extern long (*k_read_hook)(int fd, void *buf, unsigned long n);
extern long (*k_write_hook)(int fd, const void *buf, unsigned long n);
extern void (*k_close_hook)(int fd);
extern long (*k_splice_hook)(int fdin, int fdout, unsigned long len);
extern void (*k_clock_hook)(void);			/* after every clock reading handed out */

/* ---- harness API ---- */
int k_new_generic(void);				/* new K_GENERIC descriptor owned by the harness */
struct ktruth { long in, out, hup, err; };
void k_truth4(int fd, struct ktruth *t);		/* readiness ground truth, 0/1 each, may be unknowns */
int k_truth(int fd);					/* packed KR_* bits */
void k_time_fresh(struct ktime *t, const char *name);	/* t := unknown instant >= k_now; k_now := t */
long k_time_le(const struct ktime *a, const struct ktime *b);
long k_time_lt(const struct ktime *a, const struct ktime *b);
int k_count_open(int by_lib_only);
int k_epoll_interest(int epfd, int fd, uint32_t *events, int *disabled);	/* 1 if present */
void k_reset(void);

/* statistics for evidence / cover goals */
extern int k_nwaits, k_nwaits_blocking;

#endif
