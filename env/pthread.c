/* Model of the pthread calls ivykis uses, on top of the executor's thread
 * intrinsics.  Scheduling points: lock acquisition, create, join, exit. */
#include <errno.h>
#include <pthread.h>
#include <stdlib.h>
#include <string.h>
#include "pmodel.h"
#include "kmodel.h"

void sx_kill_other_threads(void);

#define MAXKEYS 8

struct mtx {		/* overlay on pthread_mutex_t / pthread_spinlock_t storage */
	int locked;
	int owner;
};

static void *tls_vals[PMAXT][MAXKEYS];
static void (*tls_dtor[MAXKEYS])(void *);
static int tls_nkeys;

struct trec {
	void *(*fn)(void *);
	void *arg;
	int tid;
	int detached;
	int joined;
	int used;
};
static struct trec trecs[PMAXT];
int pth_threads_created;
int pth_threads_joined;
int pth_create_fail;
int pth_create_calls, pth_create_fail_at;	/* fail exactly the k-th call (1-based), 0: none */

static void (*atfork_h[3][4])(void);
static int atfork_n;

static int mtx_free(void *m)
{
	return !((struct mtx *)m)->locked;
}

static void mtx_lock(struct mtx *m, const char *what)
{
	sx_sched();
	if (m->locked) {
		if (m->owner == sx_tid())
			sx_fail("env.self-deadlock-on-lock");
		sx_block_until(mtx_free, m, -1);
	}
	m->locked = 1;
	m->owner = sx_tid();
	sx_hb_acq(m);
}

static void mtx_unlock(struct mtx *m)
{
	if (!m->locked || m->owner != sx_tid())
		sx_fail("env.unlock-of-lock-not-held");
	sx_hb_rel(m);
	m->locked = 0;
}

int pthread_mutex_init(pthread_mutex_t *m, const pthread_mutexattr_t *a)
{
	memset(m, 0, sizeof(*m));
	return 0;
}

int pthread_mutex_destroy(pthread_mutex_t *m)
{
	if (((struct mtx *)m)->locked)
		sx_fail("env.destroy-of-locked-mutex");
	return 0;
}

int pthread_mutex_lock(pthread_mutex_t *m)
{
	mtx_lock((struct mtx *)m, "mutex");
	p_maybe_deliver_locked();
	return 0;
}

int pthread_mutex_unlock(pthread_mutex_t *m)
{
	mtx_unlock((struct mtx *)m);
	return 0;
}

/* pthread_spinlock_t is a single int: keep owner in a side table keyed by address */
static int spin_free(void *l)
{
	return *(volatile int *)l == 0;
}

int pthread_spin_init(pthread_spinlock_t *l, int pshared)
{
	*l = 0;
	return 0;
}

int pthread_spin_lock(pthread_spinlock_t *l)
{
	sx_sched();
	if (*l != 0) {
		if (*l == sx_tid() + 1)
			sx_fail("env.self-deadlock-on-lock");
		sx_block_until(spin_free, (void *)l, -1);
	}
	*l = sx_tid() + 1;
	sx_hb_acq((void *)l);
	p_maybe_deliver_locked();
	return 0;
}

int pthread_spin_trylock(pthread_spinlock_t *l)
{
	sx_sched();
	if (*l != 0)
		return EBUSY;
	*l = sx_tid() + 1;
	sx_hb_acq((void *)l);
	return 0;
}

int pthread_spin_unlock(pthread_spinlock_t *l)
{
	if (*l != sx_tid() + 1)
		sx_fail("env.unlock-of-lock-not-held");
	sx_hb_rel((void *)l);
	*l = 0;
	return 0;
}

int pthread_key_create(pthread_key_t *key, void (*dtor)(void *))
{
	if (tls_nkeys == MAXKEYS)
		return EAGAIN;
	tls_dtor[tls_nkeys] = dtor;
	*key = (pthread_key_t)tls_nkeys++;
	return 0;
}

void *pthread_getspecific(pthread_key_t key)
{
	return tls_vals[sx_tid()][key];
}

int pthread_setspecific(pthread_key_t key, const void *val)
{
	tls_vals[sx_tid()][key] = (void *)val;
	return 0;
}

int pthread_once(pthread_once_t *once, void (*fn)(void))
{
	sx_sched();
	if (*(int *)once == 0) {
		*(int *)once = 1;
		fn();
	}
	return 0;
}

pthread_t pthread_self(void)
{
	return (pthread_t)(sx_tid() + 1);
}

static void run_key_destructors(void)
{
	int t = sx_tid(), k, round;

	for (round = 0; round < 4; round++) {
		int again = 0;
		for (k = 0; k < tls_nkeys; k++) {
			void *v = tls_vals[t][k];
			if (v != NULL && tls_dtor[k] != NULL) {
				tls_vals[t][k] = NULL;
				tls_dtor[k](v);
				again = 1;
			}
		}
		if (!again)
			break;
	}
}

static void *trampoline(void *_r)
{
	struct trec *r = _r;
	void *ret;

	r->tid = sx_tid();
	ret = r->fn(r->arg);
	run_key_destructors();
	return ret;
}

void pthread_exit(void *ret)
{
	run_key_destructors();
	sx_thread_exit((long)ret);
}

int pthread_create(pthread_t *th, const pthread_attr_t *attr, void *(*fn)(void *), void *arg)
{
	int i, tid;

	sx_sched();
	if (pth_create_fail)
		return EAGAIN;
	if (++pth_create_calls == pth_create_fail_at) {
		sx_cover("env.pthread_create-fails");
		return EAGAIN;
	}
	for (i = 0; i < PMAXT; i++)
		if (!trecs[i].used)
			break;
	if (i == PMAXT)
		return EAGAIN;
	trecs[i].used = 1;
	trecs[i].fn = fn;
	trecs[i].arg = arg;
	trecs[i].detached = 0;
	trecs[i].joined = 0;
	tid = sx_thread_create(trampoline, &trecs[i]);
	if (tid >= PMAXT)
		sx_fail("env.too-many-threads");
	trecs[i].tid = tid;
	/* a new thread inherits the creator's signal mask */
	p_sigmask[tid] = p_sigmask[sx_tid()];
	pth_threads_created++;
	*th = (pthread_t)(tid + 1);
	return 0;
}

static int thread_done(void *arg)
{
	return sx_thread_done((int)(long)arg);
}

int pthread_join(pthread_t th, void **ret)
{
	int tid = (int)th - 1, i;

	sx_sched();
	sx_block_until(thread_done, (void *)(long)tid, -1);
	sx_hb_join(tid);
	for (i = 0; i < PMAXT; i++) {
		if (trecs[i].used && trecs[i].tid == tid) {
			if (trecs[i].joined || trecs[i].detached)
				sx_fail("env.join-of-joined-or-detached-thread");
			trecs[i].joined = 1;
		}
	}
	pth_threads_joined++;
	if (ret)
		*ret = (void *)sx_thread_retval(tid);
	return 0;
}

int pthread_detach(pthread_t th)
{
	int tid = (int)th - 1, i;

	for (i = 0; i < PMAXT; i++)
		if (trecs[i].used && trecs[i].tid == tid)
			trecs[i].detached = 1;
	return 0;
}

int pth_unjoined(void)
{
	int i, n = 0;

	for (i = 0; i < PMAXT; i++)
		if (trecs[i].used && !trecs[i].joined && !trecs[i].detached)
			n++;
	return n;
}

int pthread_atfork(void (*prepare)(void), void (*parent)(void), void (*child)(void))
{
	if (atfork_n == 4)
		return ENOMEM;
	atfork_h[0][atfork_n] = prepare;
	atfork_h[1][atfork_n] = parent;
	atfork_h[2][atfork_n] = child;
	atfork_n++;
	return 0;
}

void sxm_run_atfork(int which)
{
	int i;

	if (which == 0) {
		for (i = atfork_n - 1; i >= 0; i--)
			if (atfork_h[0][i])
				atfork_h[0][i]();
	} else {
		for (i = 0; i < atfork_n; i++)
			if (atfork_h[which][i])
				atfork_h[which][i]();
	}
}

void sxm_fork_child_threads(void)
{
	sx_kill_other_threads();
}
