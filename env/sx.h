/* ivsx intrinsics: implemented by the executor (ivsx/builtins.py, ivsx/sched.py) */
#ifndef SX_H
#define SX_H
#include <stddef.h>
#include <stdint.h>

long sx_long(const char *name, long lo, long hi);   /* fresh unknown in [lo,hi] (signed) */
int  sx_choose(int n);                               /* fork: returns 0..n-1 */
void sx_assume(long cond);
void sx_assert(long cond, const char *oracle_id);
void sx_fail(const char *oracle_id);
void sx_cover(const char *goal_id);
void sx_end(void);                                   /* end this path successfully */
void sx_note(const char *tag, long v);
long sx_concrete(long v);                            /* fork over every feasible value */
int  sx_is_symbolic(long v);
int  sx_is_live(const void *p);
int  sx_lib_heap_count(void);
void sx_leak_check(int allowed);
void sx_leak_check_unreachable(void);	/* no live library heap block is unreachable from globals, stacks and registers */
long sx_opt(const char *name, long dflt);

/* threads */
int  sx_thread_create(void *(*fn)(void *), void *arg);
int  sx_tid(void);
int  sx_nthreads(void);
void sx_sched(void);
int  sx_block_until(int (*pred)(void *), void *arg, long deadline);
int  sx_thread_done(int tid);
long sx_thread_retval(int tid);
void sx_thread_exit(long ret);
void sx_hb_enable(void);
void sx_hb_rel(const void *key);
void sx_hb_acq(const void *key);
void sx_hb_join(int tid);
void sx_async_flag(int *flag);

#define SX_INT(name, lo, hi)  ((int)sx_long(name, lo, hi))
#define SX_BOOL(name)         ((int)sx_long(name, 0, 1))

#endif
