/* Model of signals, fork/wait4/kill/execvp. */
#include <errno.h>
#include <signal.h>
#include <stdlib.h>
#include <string.h>
#include <unistd.h>
#include <sys/wait.h>
#include <sys/resource.h>
#include "pmodel.h"
#include "kmodel.h"

struct psigaction p_sigact[PMAXSIG];
unsigned long p_sigmask[PMAXT];
unsigned long p_pending;
unsigned long p_tpending[PMAXT];
int p_pid = 100;
int p_in_child;
int p_async_flags[PMAXT];
int p_async_enabled;
int p_deliveries;
int p_default_actions;
int p_signals_possible;
struct pchild p_children[PMAXCHILD];
int p_nchildren;
void (*p_kill_hook)(int pid, int sig);
void (*p_exec_hook)(const char *file);
void (*p_child_hook)(int pid);
void (*p_delivery_hook)(int tid, int sig);
void (*p_reap_hook)(int pid, int status);
void (*p_delivery_done_hook)(int tid, int sig);
int p_fork_fail;

static int next_pid = 200;

#define BIT(s) (1UL << (s))

static void update_flags(void)
{
	int t;

	if (!p_async_enabled)
		return;
	for (t = 0; t < PMAXT; t++)
		p_async_flags[t] = ((p_pending | p_tpending[t]) & ~p_sigmask[t]) != 0;
}

int p_signal_deliverable(void)
{
	int t = sx_tid();

	if (t >= PMAXT)
		return 0;
	return ((p_pending | p_tpending[t]) & ~p_sigmask[t]) != 0;
}

int p_signal_possible(void)
{
	return p_signals_possible || p_pending != 0;
}

static int deliver_one(int t)
{
	unsigned long d = (p_tpending[t] | p_pending) & ~p_sigmask[t];
	int sig;
	struct psigaction *sa;
	unsigned long old;

	if (d == 0)
		return 0;
	for (sig = 1; sig < PMAXSIG; sig++)
		if (d & BIT(sig))
			break;
	if (p_tpending[t] & BIT(sig))
		p_tpending[t] &= ~BIT(sig);
	else
		p_pending &= ~BIT(sig);
	update_flags();
	sa = &p_sigact[sig];
	if (sa->handler == SIG_IGN)
		return 1;
	if (sa->handler == SIG_DFL) {
		if (sig != SIGCHLD && sig != SIGURG && sig != SIGWINCH) {
			p_default_actions++;
			sx_note("default-action-for-signal", sig);
		}
		return 1;
	}
	old = p_sigmask[t];
	p_sigmask[t] |= sa->mask | BIT(sig);
	update_flags();
	p_deliveries++;
	sx_note("signal-handler-enter", sig);
	if (p_delivery_hook)
		p_delivery_hook(t, sig);
	sa->handler(sig);
	if (p_delivery_done_hook)
		p_delivery_done_hook(t, sig);
	p_sigmask[t] = old;
	update_flags();
	return 1;
}

int p_deliver_signals(void)
{
	int t = sx_tid(), n = 0;

	if (t >= PMAXT)
		return 0;
	while (deliver_one(t))
		n++;
	return n;
}

/* optional delivery point (entry of modelled system calls): a deliverable signal is
 * taken now or left for a later point; waits deliver unconditionally */
int p_opt_deliveries;
void p_maybe_deliver(void)
{
	int t = sx_tid();

	if (!p_opt_deliveries || t >= PMAXT)
		return;
	if (((p_pending | p_tpending[t]) & ~p_sigmask[t]) == 0)
		return;
	if (sx_choose(2) == 1) {
		sx_cover("env.signal-delivered-at-syscall-boundary");
		deliver_one(t);
	}
}

/* optional delivery point right after a lock was acquired: a signal that the thread has not blocked may arrive
 * while it holds the lock (a handler that takes the same lock then deadlocks on its own stack) */
int p_lock_deliveries;
void p_maybe_deliver_locked(void)
{
	int t = sx_tid();

	if (!p_lock_deliveries || t >= PMAXT)
		return;
	if (((p_pending | p_tpending[t]) & ~p_sigmask[t]) == 0)
		return;
	if (sx_choose(2) == 1) {
		sx_cover("env.signal-delivered-while-holding-a-lock");
		deliver_one(t);
	}
}

void sxm_async_deliver(void)
{
	int t = sx_tid();

	if (t < PMAXT)
		deliver_one(t);
}

void p_send_process_signal(int sig)
{
	p_pending |= BIT(sig);
	update_flags();
}

void p_send_thread_signal(int tid, int sig)
{
	p_tpending[tid] |= BIT(sig);
	update_flags();
}

/* ---- libc entry points ---- */
int sigaction(int sig, const struct sigaction *act, struct sigaction *old)
{
	if (sig <= 0 || sig >= PMAXSIG) {
		errno = EINVAL;
		return -1;
	}
	if (old != NULL) {
		memset(old, 0, sizeof(*old));
		old->sa_handler = p_sigact[sig].handler;
	}
	if (act != NULL) {
		p_sigact[sig].handler = act->sa_handler;
		p_sigact[sig].mask = *(const unsigned long *)&act->sa_mask;
		p_sigact[sig].flags = act->sa_flags;
	}
	return 0;
}

void (*signal(int sig, void (*h)(int)))(int)
{
	void (*o)(int);

	if (sig <= 0 || sig >= PMAXSIG)
		return SIG_ERR;
	o = p_sigact[sig].handler;
	p_sigact[sig].handler = h;
	p_sigact[sig].mask = 0;
	return o;
}

int sigemptyset(sigset_t *set)
{
	memset(set, 0, sizeof(*set));
	return 0;
}

int sigfillset(sigset_t *set)
{
	memset(set, 0xff, sizeof(*set));
	return 0;
}

int sigaddset(sigset_t *set, int sig)
{
	*(unsigned long *)set |= BIT(sig);
	return 0;
}

static int do_sigmask(int how, const sigset_t *set, sigset_t *old)
{
	int t = sx_tid();

	if (t >= PMAXT)
		return 0;
	if (old != NULL) {
		memset(old, 0, sizeof(*old));
		*(unsigned long *)old = p_sigmask[t];
	}
	if (set != NULL) {
		unsigned long m = *(const unsigned long *)set;
		/* SIGKILL/SIGSTOP cannot be blocked; irrelevant here */
		if (how == SIG_BLOCK)
			p_sigmask[t] |= m;
		else if (how == SIG_UNBLOCK)
			p_sigmask[t] &= ~m;
		else
			p_sigmask[t] = m;
		update_flags();
		/* unblocking delivers pending signals before the call returns */
		if (how != SIG_BLOCK)
			p_deliver_signals();
	}
	return 0;
}

int pthread_sigmask(int how, const sigset_t *set, sigset_t *old)
{
	return do_sigmask(how, set, old);
}

int sigprocmask(int how, const sigset_t *set, sigset_t *old)
{
	return do_sigmask(how, set, old);
}

pid_t getpid(void)
{
	return p_pid;
}

int raise(int sig)
{
	p_send_thread_signal(sx_tid(), sig);
	p_deliver_signals();
	return 0;
}

static struct pchild *child_of(int pid)
{
	int i;

	for (i = 0; i < p_nchildren; i++)
		if (p_children[i].pid == pid && p_children[i].exists)
			return &p_children[i];
	return NULL;
}

int kill(pid_t pid, int sig)
{
	sx_sched();
	if (pid == p_pid) {
		p_send_process_signal(sig);
		p_deliver_signals();
		return 0;
	}
	if (p_kill_hook)
		p_kill_hook(pid, sig);
	if (child_of(pid) == NULL) {
		errno = ESRCH;
		return -1;
	}
	return 0;
}

int p_new_child(void)
{
	struct pchild *c;

	if (p_nchildren == PMAXCHILD)
		sx_fail("env.too-many-children");
	c = &p_children[p_nchildren++];
	memset(c, 0, sizeof(*c));
	c->pid = next_pid++;
	c->exists = 1;
	return c->pid;
}

void p_child_report(int pid, int status)
{
	struct pchild *c = child_of(pid);

	if (c == NULL || c->terminated)
		sx_fail("env.report-for-dead-child");
	c->has_report = 1;
	c->report = status;
	c->nreports++;
	if (WIFEXITED(status) || WIFSIGNALED(status))
		c->terminated = 1;
	p_send_process_signal(SIGCHLD);
}

pid_t wait4(pid_t pid, int *status, int options, struct rusage *ru)
{
	int i, any = 0;

	sx_sched();
	for (i = 0; i < p_nchildren; i++) {
		struct pchild *c = &p_children[i];
		if (!c->exists)
			continue;
		if (pid > 0 && c->pid != pid)
			continue;
		any = 1;
		if (c->has_report) {
			c->has_report = 0;
			if (status)
				*status = c->report;
			if (p_reap_hook)
				p_reap_hook(c->pid, c->report);
			if (ru)
				memset(ru, 0, sizeof(*ru));
			if (c->terminated) {
				c->reaped = 1;
				c->exists = 0;
			}
			return c->pid;
		}
	}
	if (!any) {
		errno = ECHILD;
		return -1;
	}
	if (!(options & WNOHANG))
		sx_fail("env.blocking-wait4-not-modelled");
	return 0;
}

/* fork: the state is duplicated by sx_choose; alternative 1 is the child copy */
extern void sxm_run_atfork(int which);
extern void sxm_fork_child_threads(void);

pid_t fork(void)
{
	int pid;

	if (p_fork_fail) {
		errno = EAGAIN;
		return -1;
	}
	sxm_run_atfork(0);
	/* the prepare handlers have run, the parent handlers have not: other threads run meanwhile
	 * (glibc does not serialise the handlers of concurrent forks) */
	if (sx_nthreads() > 1)
		sx_sched();
	pid = p_new_child();
	if (sx_choose(2) == 1) {
		/* child copy of the world */
		p_in_child = 1;
		p_pid = pid;
		p_nchildren = 0;
		p_pending = 0;
		sxm_fork_child_threads();
		sxm_run_atfork(2);
		sx_cover("env.fork-child-copy-explored");
		return 0;
	}
	sxm_run_atfork(1);
	if (p_child_hook)
		p_child_hook(pid);
	return pid;
}

int execvp(const char *file, char *const argv[])
{
	if (!p_in_child)
		sx_fail("env.exec-in-parent");
	if (p_exec_hook)
		p_exec_hook(file);
	sx_end();
	return -1;
}
