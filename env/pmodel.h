/* Process / signal / thread model shared with harnesses. */
#ifndef PMODEL_H
#define PMODEL_H
#include <signal.h>
#include <sys/types.h>
#include "sx.h"

#define PMAXT	8
#define PMAXSIG	32
#define PMAXCHILD 6

struct psigaction {
	void (*handler)(int);
	unsigned long mask;
	int flags;
};

extern struct psigaction p_sigact[PMAXSIG];
extern unsigned long p_sigmask[PMAXT];		/* blocked signals per thread */
extern unsigned long p_pending;			/* process-directed pending */
extern unsigned long p_tpending[PMAXT];		/* thread-directed pending */
extern int p_pid;
extern int p_in_child;
extern int p_async_flags[PMAXT];		/* !=0: current thread has a deliverable signal (fine-grained delivery) */
extern int p_async_enabled;			/* fine-grained (per instruction) delivery on */
extern int p_deliveries;			/* handler invocations so far */
extern int p_default_actions;			/* deliveries that hit SIG_DFL (other than SIGCHLD) */
extern int p_signals_possible;			/* harness: a signal may still be raised by somebody else */

/* children */
struct pchild {
	int pid;
	int exists;		/* forked and not yet reaped to termination */
	int terminated;		/* termination status generated */
	int reaped;		/* termination status collected by wait4 */
	int has_report;
	int report;		/* wait status to report */
	int nreports;
};
extern struct pchild p_children[PMAXCHILD];
extern int p_nchildren;
extern void (*p_kill_hook)(int pid, int sig);	/* kill() on a child pid */
extern void (*p_exec_hook)(const char *file);	/* execvp in a child copy */
extern void (*p_child_hook)(int pid);		/* called in the parent after fork */
extern int p_fork_fail;
extern void (*p_delivery_done_hook)(int tid, int sig);
extern void (*p_reap_hook)(int pid, int status);		/* wait4 is returning this status */
extern void (*p_delivery_hook)(int tid, int sig);	/* a handler is about to run in thread tid */

int p_signal_deliverable(void);			/* current thread has an unblocked pending signal */
int p_deliver_signals(void);			/* run handlers for them; returns how many ran */
int p_signal_possible(void);
void p_send_process_signal(int sig);		/* as if another process did kill(getpid(), sig) */
void p_send_thread_signal(int tid, int sig);
int p_new_child(void);				/* a child created outside the library (plain fork by the application) */
void p_child_report(int pid, int status);	/* child changes state: status as wait4 would report */
void sxm_async_deliver(void);
extern int p_opt_deliveries;			/* also deliver (by choice) at the entry of modelled system calls */
void p_maybe_deliver(void);
extern int p_lock_deliveries;			/* also deliver (by choice) right after a spin lock or mutex was acquired */
void p_maybe_deliver_locked(void);

#define P_STATUS_EXITED(code)	(((code) & 0xff) << 8)
#define P_STATUS_SIGNALED(sig)	((sig) & 0x7f)
#define P_STATUS_STOPPED(sig)	((((sig) & 0xff) << 8) | 0x7f)
#define P_STATUS_CONTINUED	0xffff

#endif
