"""Parser for the subset of textual LLVM-14 IR that clang -O0 + mem2reg emits
for ivykis, the environment models and the harnesses.

The result is a Module with named struct types, globals (with constant
initialisers), function declarations and function bodies as lists of basic
blocks of Instr objects.  Nothing here knows about execution.
"""
import re

# ---------------------------------------------------------------- types

class Type:
    __slots__ = ()
    is_int = is_ptr = is_struct = is_array = is_void = is_func = is_float = False


class IntT(Type):
    __slots__ = ('bits', 'size', 'align', 'mask')
    is_int = True

    def __init__(self, bits):
        self.bits = bits
        n = (bits + 7) // 8
        s = 1
        while s < n:
            s *= 2
        self.size = s
        self.align = min(s, 16)
        self.mask = (1 << bits) - 1

    def __repr__(self):
        return 'i%d' % self.bits


class PtrT(Type):
    __slots__ = ('to',)
    is_ptr = True
    bits = 64
    size = 8
    align = 8
    mask = (1 << 64) - 1

    def __init__(self, to):
        self.to = to

    def __repr__(self):
        return 'ptr'


class VoidT(Type):
    __slots__ = ()
    is_void = True
    size = 0
    align = 1
    bits = 0

    def __repr__(self):
        return 'void'


class FloatT(Type):
    __slots__ = ('bits', 'size', 'align')
    is_float = True

    def __init__(self, bits, size):
        self.bits = bits
        self.size = size
        self.align = size

    def __repr__(self):
        return 'f%d' % self.bits


class ArrT(Type):
    __slots__ = ('n', 'elem')
    is_array = True

    def __init__(self, n, elem):
        self.n = n
        self.elem = elem

    @property
    def size(self):
        return self.n * self.elem.size

    @property
    def align(self):
        return self.elem.align

    def __repr__(self):
        return '[%d x %r]' % (self.n, self.elem)


class StructT(Type):
    __slots__ = ('name', 'fields', 'packed', '_layout', 'opaque')
    is_struct = True

    def __init__(self, name, fields=None, packed=False):
        self.name = name
        self.fields = fields
        self.packed = packed
        self._layout = None
        self.opaque = fields is None

    def layout(self):
        if self._layout is None:
            off = 0
            al = 1
            offs = []
            for f in self.fields:
                a = 1 if self.packed else f.align
                off = (off + a - 1) // a * a
                offs.append(off)
                off += f.size
                al = max(al, a)
            size = (off + al - 1) // al * al
            self._layout = (offs, size, al)
        return self._layout

    @property
    def offsets(self):
        return self.layout()[0]

    @property
    def size(self):
        return self.layout()[1]

    @property
    def align(self):
        return self.layout()[2]

    def __repr__(self):
        return self.name or 'struct{%s}' % ','.join(map(repr, self.fields or []))


class FuncT(Type):
    __slots__ = ('ret', 'params', 'vararg')
    is_func = True
    size = 0
    align = 1

    def __init__(self, ret, params, vararg):
        self.ret = ret
        self.params = params
        self.vararg = vararg

    def __repr__(self):
        return 'fn'


class MiscT(Type):
    __slots__ = ('kind',)
    size = 0
    align = 1

    def __init__(self, kind):
        self.kind = kind

    def __repr__(self):
        return self.kind


VOID = VoidT()
_ints = {}


def int_t(bits):
    t = _ints.get(bits)
    if t is None:
        t = _ints[bits] = IntT(bits)
    return t


# ---------------------------------------------------------------- tokens

TOK = re.compile(r'''
   (?P<ws>\s+|;[^\n]*)
 | (?P<cstr>c"(?:[^"\\]|\\[0-9A-Fa-f]{2}|\\\\)*")
 | (?P<qname>[%@!$]"[^"]*")
 | (?P<str>"[^"]*")
 | (?P<name>[%@][-a-zA-Z$._0-9]+)
 | (?P<meta>![-a-zA-Z$._0-9]*)
 | (?P<attr>\#\d+)
 | (?P<hex>0x[KMLHR]?[0-9A-Fa-f]+)
 | (?P<num>-?\d+(?:\.\d+(?:e[+-]?\d+)?)?)
 | (?P<dots>\.\.\.)
 | (?P<id>[a-zA-Z_][a-zA-Z0-9_.]*)
 | (?P<p>[=,()\[\]{}<>*:|])
''', re.X)


def tokenize(s):
    out = []
    pos = 0
    n = len(s)
    while pos < n:
        m = TOK.match(s, pos)
        if not m:
            raise SyntaxError('cannot tokenize at: %r' % s[pos:pos + 40])
        pos = m.end()
        k = m.lastgroup
        if k == 'ws':
            continue
        t = m.group()
        if k == 'qname':
            t = t[0] + t[2:-1]
        out.append(t)
    return out


PARAM_ATTRS = {'noundef', 'nonnull', 'signext', 'zeroext', 'nocapture', 'readonly',
               'writeonly', 'noalias', 'immarg', 'returned', 'inreg', 'nest',
               'readnone', 'nofree', 'swiftself', 'noreturn'}
PARAM_ATTRS_T = {'byval', 'sret', 'byref', 'inalloca', 'preallocated', 'elementtype'}
PARAM_ATTRS_N = {'align', 'dereferenceable', 'dereferenceable_or_null'}


class Instr:
    __slots__ = ('op', 'dest', 'ty', 'ops', 'extra', 'dbg')

    def __init__(self, op, dest, ty, ops, extra=None, dbg=None):
        self.op = op
        self.dest = dest
        self.ty = ty
        self.ops = ops
        self.extra = extra
        self.dbg = dbg

    def __repr__(self):
        return '<%s %s %r %r>' % (self.dest, self.op, self.ty, self.ops)


class Block:
    __slots__ = ('name', 'instrs')

    def __init__(self, name):
        self.name = name
        self.instrs = []


class Function:
    def __init__(self, name, fty, params, dbg=None):
        self.name = name
        self.fty = fty
        self.params = params          # list of (name, type, attrs)
        self.blocks = []
        self.dbg = dbg
        self.defined = False


class GlobalVar:
    def __init__(self, name, ty, init, const, tls, align):
        self.name = name
        self.ty = ty
        self.init = init
        self.const = const
        self.tls = tls
        self.align = align


class Module:
    def __init__(self):
        self.types = {}
        self.globals = {}
        self.funcs = {}
        self.meta = {}       # id -> raw text
        self._loc_cache = {}

    # ---- debug locations -------------------------------------------------
    def loc(self, dbg):
        """(file, line) for a !dbg id, or None."""
        if dbg is None:
            return None
        r = self._loc_cache.get(dbg)
        if r is not None:
            return r
        txt = self.meta.get(dbg, '')
        line = None
        m = re.search(r'\bline: (\d+)', txt)
        if m:
            line = int(m.group(1))
        f = self._file_of(dbg, 0)
        r = (f, line)
        self._loc_cache[dbg] = r
        return r

    def _file_of(self, mid, depth):
        if depth > 40:
            return None
        txt = self.meta.get(mid, '')
        if txt.startswith('!DIFile') or txt.startswith('distinct !DIFile'):
            m = re.search(r'filename: "([^"]*)"', txt)
            return m.group(1) if m else None
        m = re.search(r'\bfile: (!\d+)', txt)
        if m:
            return self._file_of(m.group(1), depth + 1)
        m = re.search(r'\bscope: (!\d+)', txt)
        if m:
            return self._file_of(m.group(1), depth + 1)
        return None


class Parser:
    def __init__(self, text):
        self.mod = Module()
        self.lines = text.split('\n')

    # ------------------------------------------------------------ types
    def named_type(self, name):
        t = self.mod.types.get(name)
        if t is None:
            t = self.mod.types[name] = StructT(name)
        return t

    def parse_type(self, tk, i):
        t = tk[i]
        if t[0] == '%':
            ty = self.named_type(t)
            i += 1
        elif t == 'void':
            ty = VOID
            i += 1
        elif t[0] == 'i' and t[1:].isdigit():
            ty = int_t(int(t[1:]))
            i += 1
        elif t == 'ptr':
            ty = PtrT(None)
            i += 1
        elif t in ('float', 'double', 'x86_fp80', 'half', 'fp128'):
            ty = FloatT({'float': 32, 'double': 64, 'x86_fp80': 80, 'half': 16, 'fp128': 128}[t],
                        {'float': 4, 'double': 8, 'x86_fp80': 16, 'half': 2, 'fp128': 16}[t])
            i += 1
        elif t in ('metadata', 'label', 'token'):
            ty = MiscT(t)
            i += 1
        elif t == '[':
            n = int(tk[i + 1])
            assert tk[i + 2] == 'x'
            el, i = self.parse_type(tk, i + 3)
            assert tk[i] == ']', tk[i:i + 5]
            ty = ArrT(n, el)
            i += 1
        elif t == '{':
            fields, i = self._fields(tk, i + 1, '}')
            ty = StructT(None, fields, False)
        elif t == '<':
            if tk[i + 1] == '{':
                fields, i = self._fields(tk, i + 2, '}')
                assert tk[i] == '>'
                i += 1
                ty = StructT(None, fields, True)
            else:
                n = int(tk[i + 1])
                el, i = self.parse_type(tk, i + 3)
                assert tk[i] == '>'
                i += 1
                ty = ArrT(n, el)     # vector, treated as array (unused)
        elif t == 'opaque':
            return None, i + 1
        else:
            raise SyntaxError('type? %r in %r' % (t, tk[max(0, i - 5):i + 5]))
        # suffixes
        while i < len(tk):
            if tk[i] == '*':
                ty = PtrT(ty)
                i += 1
            elif tk[i] == 'addrspace':
                i += 4
            elif tk[i] == '(':
                params = []
                vararg = False
                i += 1
                while tk[i] != ')':
                    if tk[i] == '...':
                        vararg = True
                        i += 1
                    else:
                        p, i = self.parse_type(tk, i)
                        params.append(p)
                    if tk[i] == ',':
                        i += 1
                i += 1
                ty = FuncT(ty, params, vararg)
            else:
                break
        return ty, i

    def _fields(self, tk, i, close):
        fields = []
        while tk[i] != close:
            f, i = self.parse_type(tk, i)
            fields.append(f)
            if tk[i] == ',':
                i += 1
        return fields, i + 1

    # ------------------------------------------------------------ values
    def parse_value(self, ty, tk, i):
        """Parse a value of known type; returns (operand, i)."""
        t = tk[i]
        c = t[0]
        if c == '%':
            return ('reg', t), i + 1
        if c == '@':
            return ('global', t[1:]), i + 1
        if t == 'null' or t == 'zeroinitializer':
            if ty.is_struct or ty.is_array:
                return ('zero', ty), i + 1
            return ('int', 0), i + 1
        if t in ('undef', 'poison'):
            return ('undef', ty), i + 1
        if t == 'true':
            return ('int', 1), i + 1
        if t == 'false':
            return ('int', 0), i + 1
        if c.isdigit() or c == '-':
            if ty.is_float or t.startswith('0x') or '.' in t:
                return ('int', 0), i + 1      # floats unsupported: value unused
            return ('int', int(t) & ty.mask), i + 1
        if c == 'c' and len(t) > 1 and t[1] == '"':
            return ('cstr', self._cstr(t)), i + 1
        if t == '{' or t == '[' or (t == '<' and tk[i + 1] == '{'):
            packed = t == '<'
            if packed:
                i += 1
            close = '}' if tk[i] == '{' else ']'
            i += 1
            elems = []
            while tk[i] != close:
                ety, i = self.parse_type(tk, i)
                v, i = self.parse_value(ety, tk, i)
                elems.append((ety, v))
                if tk[i] == ',':
                    i += 1
            i += 1
            if packed:
                assert tk[i] == '>'
                i += 1
            return ('agg', ty, elems), i
        if t in ('getelementptr', 'bitcast', 'ptrtoint', 'inttoptr', 'sub', 'add', 'trunc',
                 'zext', 'sext', 'mul', 'and', 'or', 'xor', 'icmp', 'select', 'addrspacecast',
                 'shl', 'lshr', 'ashr'):
            return self.parse_cexpr(tk, i)
        raise SyntaxError('value? %r in %r' % (t, tk[max(0, i - 6):i + 6]))

    def parse_typed_value(self, tk, i):
        ty, i = self.parse_type(tk, i)
        while tk[i] in PARAM_ATTRS:
            i += 1
        v, i = self.parse_value(ty, tk, i)
        return ty, v, i

    def parse_cexpr(self, tk, i):
        op = tk[i]
        i += 1
        while tk[i] in ('inbounds', 'nsw', 'nuw', 'exact'):
            i += 1
        if op == 'getelementptr':
            assert tk[i] == '('
            i += 1
            while tk[i] in ('inbounds',):
                i += 1
            sty, i = self.parse_type(tk, i)
            assert tk[i] == ','
            i += 1
            pty, base, i = self.parse_typed_value(tk, i)
            idx = []
            while tk[i] == ',':
                i += 1
                if tk[i] == 'inrange':
                    i += 1
                ity, iv, i = self.parse_typed_value(tk, i)
                idx.append((ity, iv))
            assert tk[i] == ')'
            return ('cexpr', 'gep', sty, base, idx), i + 1
        if op in ('bitcast', 'ptrtoint', 'inttoptr', 'trunc', 'zext', 'sext', 'addrspacecast'):
            assert tk[i] == '('
            fty, v, i = self.parse_typed_value(tk, i + 1)
            assert tk[i] == 'to'
            tty, i = self.parse_type(tk, i + 1)
            assert tk[i] == ')'
            return ('cexpr', op, fty, v, tty), i + 1
        if op == 'icmp':
            pred = tk[i]
            assert tk[i + 1] == '('
            ty, a, i = self.parse_typed_value(tk, i + 2)
            assert tk[i] == ','
            ty2, b, i = self.parse_typed_value(tk, i + 1)
            assert tk[i] == ')'
            return ('cexpr', 'icmp', pred, ty, a, b), i + 1
        # binary
        assert tk[i] == '('
        ty, a, i = self.parse_typed_value(tk, i + 1)
        assert tk[i] == ','
        ty2, b, i = self.parse_typed_value(tk, i + 1)
        assert tk[i] == ')'
        return ('cexpr', op, ty, a, b), i + 1

    @staticmethod
    def _cstr(t):
        s = t[2:-1]
        out = bytearray()
        j = 0
        while j < len(s):
            ch = s[j]
            if ch == '\\':
                if s[j + 1] == '\\':
                    out.append(92)
                    j += 2
                else:
                    out.append(int(s[j + 1:j + 3], 16))
                    j += 3
            else:
                out.append(ord(ch))
                j += 1
        return bytes(out)

    # ------------------------------------------------------------ module
    def parse(self):
        lines = self.lines
        n = len(lines)
        i = 0
        mod = self.mod
        while i < n:
            ln = lines[i]
            i += 1
            if not ln or ln[0] == ';':
                continue
            c = ln[0]
            if c == '%':
                tk = tokenize(ln)
                # %name = type ...
                assert tk[1] == '=' and tk[2] == 'type', ln
                st = self.named_type(tk[0])
                if tk[3] == 'opaque':
                    continue
                packed = tk[3] == '<'
                j = 5 if packed else 4
                fields, j = self._fields(tk, j, '}')
                st.fields = fields
                st.packed = packed
                st.opaque = False
            elif c == '@':
                self.parse_global(ln)
            elif c == '!':
                m = re.match(r'(![-\w.$]*) = (.*)$', ln)
                if m:
                    mod.meta[m.group(1)] = m.group(2)
            elif ln.startswith('declare'):
                self.parse_fn_header(ln, False)
            elif ln.startswith('define'):
                f = self.parse_fn_header(ln, True)
                body = []
                while lines[i] != '}':
                    body.append(lines[i])
                    i += 1
                i += 1
                self.parse_body(f, body)
            # target / source_filename / attributes: ignored
        return mod

    def parse_global(self, ln):
        ln, dbg = self._strip_meta(ln)
        tk = tokenize(ln)
        name = tk[0][1:]
        assert tk[1] == '='
        i = 2
        tls = False
        const = False
        external = False
        while True:
            t = tk[i]
            if t in ('global', 'constant'):
                const = t == 'constant'
                i += 1
                break
            if t == 'thread_local':
                tls = True
                i += 1
                if tk[i] == '(':
                    i += 3
                continue
            if t in ('external', 'extern_weak'):
                external = True
            if t == 'alias':
                return   # not used
            i += 1
        ty, i = self.parse_type(tk, i)
        init = None
        if i < len(tk) and tk[i] != ',':
            init, i = self.parse_value(ty, tk, i)
        align = ty.align
        while i < len(tk):
            if tk[i] == 'align':
                align = int(tk[i + 1])
                i += 2
            else:
                i += 1
        self.mod.globals[name] = GlobalVar(name, ty, init, const, tls, align)

    @staticmethod
    def _strip_meta(ln):
        dbg = None
        k = ln.find(', !')
        # function define lines have ' !dbg !N {'
        if k >= 0:
            m = re.search(r'!dbg (!\d+)', ln[k:])
            if m:
                dbg = m.group(1)
            ln = ln[:k]
        return ln, dbg

    def parse_fn_header(self, ln, defined):
        dbg = None
        m = re.search(r' !dbg (!\d+)', ln)
        if m:
            dbg = m.group(1)
        ln = re.sub(r'( ![-\w.]+ !\d+)+', '', ln)
        tk = tokenize(ln)
        i = 1
        # skip linkage etc. until a type can be parsed followed by @name
        while True:
            t = tk[i]
            if t in ('dso_local', 'internal', 'private', 'external', 'weak', 'linkonce_odr',
                     'hidden', 'extern_weak', 'available_externally', 'noundef', 'signext',
                     'zeroext', 'noalias', 'nonnull', 'weak_odr', 'linkonce', 'common',
                     'protected', 'default', 'local_unnamed_addr', 'unnamed_addr', 'fastcc',
                     'ccc', 'coldcc'):
                i += 1
            elif t in ('align', 'dereferenceable', 'dereferenceable_or_null'):
                i += 2 if t == 'align' else 4
            else:
                break
        # return type: parse_type would swallow "(...)"; the name precedes '('
        # find the @name token
        j = i
        while tk[j][0] != '@':
            j += 1
        rty, k = self.parse_type(tk[i:j] + ['@'], 0)
        name = tk[j][1:]
        i = j + 1
        assert tk[i] == '('
        i += 1
        params = []
        vararg = False
        while tk[i] != ')':
            if tk[i] == '...':
                vararg = True
                i += 1
            else:
                pty, i = self.parse_type(tk, i)
                attrs = {}
                pname = None
                while tk[i] not in (',', ')'):
                    t = tk[i]
                    if t in PARAM_ATTRS_T:
                        aty, i2 = self.parse_type(tk, i + 2)
                        attrs[t] = aty
                        i = i2 + 1
                    elif t in PARAM_ATTRS_N:
                        if tk[i + 1] == '(':
                            i += 4
                        else:
                            i += 2
                    elif t[0] == '%':
                        pname = t
                        i += 1
                    else:
                        i += 1
                params.append((pname, pty, attrs))
            if tk[i] == ',':
                i += 1
        fty = FuncT(rty, [p[1] for p in params], vararg)
        f = self.mod.funcs.get(name)
        if f is None or defined:
            f = Function(name, fty, params, dbg)
            self.mod.funcs[name] = f
        f.defined = f.defined or defined
        return f

    # ------------------------------------------------------------ bodies
    def parse_body(self, f, lines):
        cur = None
        i = 0
        n = len(lines)
        while i < n:
            ln = lines[i]
            i += 1
            if not ln:
                continue
            if ln[0] != ' ':
                # label
                m = re.match(r'("[^"]*"|[-\w.$]+):', ln)
                assert m, ln
                nm = m.group(1)
                if nm[0] == '"':
                    nm = nm[1:-1]
                cur = Block('%' + nm)
                f.blocks.append(cur)
                continue
            if cur is None:
                cur = Block('%entry' if not f.blocks else None)
                # unnamed entry block: its implicit name is %<nparams>
                cur.name = '%' + str(len([p for p in f.params]))
                f.blocks.append(cur)
            s = ln.strip()
            if s.startswith('call void @llvm.dbg.') or s.startswith('tail call void @llvm.dbg.'):
                continue
            if s.startswith('switch'):
                while ']' not in lines[i - 1]:
                    s += ' ' + lines[i].strip()
                    i += 1
            ins = self.parse_instr(s)
            if ins is not None:
                cur.instrs.append(ins)

    def parse_instr(self, s):
        dbg = None
        k = s.find(', !')
        if k >= 0:
            m = re.search(r'!dbg (!\d+)', s[k:])
            if m:
                dbg = m.group(1)
            s = s[:k]
        tk = tokenize(s)
        i = 0
        dest = None
        if len(tk) > 1 and tk[1] == '=':
            dest = tk[0]
            i = 2
        op = tk[i]
        i += 1
        P = self
        if op in ('tail', 'musttail', 'notail'):
            op = tk[i]
            i += 1
        if op == 'call':
            while tk[i] in ('fastcc', 'ccc', 'coldcc', 'noundef', 'signext', 'zeroext', 'noalias',
                            'nonnull', 'inreg') or tk[i] in PARAM_ATTRS_N:
                if tk[i] in PARAM_ATTRS_N:
                    i += 4 if tk[i + 1] == '(' else 2
                else:
                    i += 1
            # return type or full function type, then callee
            j = i
            depth = 0
            # find callee token: first '@name' or '%name' at depth 0 that is followed by '('
            # and not part of the type (types contain %struct names followed by '*' or ',' or ')')
            while True:
                t = tk[j]
                if t in ('(', '[', '{', '<'):
                    depth += 1
                elif t in (')', ']', '}', '>'):
                    depth -= 1
                elif depth == 0 and t[0] in '@%' and tk[j + 1] == '(' and j > i:
                    break
                elif depth == 0 and t in ('inttoptr', 'bitcast') and j > i:
                    break
                elif depth == 0 and t == 'asm':
                    return Instr('asm', dest, VOID, [], None, dbg)
                j += 1
            rty, k2 = P.parse_type(tk[i:j] + [';'], 0)
            if rty.is_func:
                fty = rty
                rty = fty.ret
            elif rty.is_ptr and rty.to is not None and rty.to.is_func and k2 == j - i and False:
                fty = rty.to
            else:
                fty = None
            i = j
            if tk[i] in ('inttoptr', 'bitcast'):
                callee, i = P.parse_cexpr(tk, i)
            else:
                callee, i = P.parse_value(PtrT(None), tk, i)
            assert tk[i] == '(', tk[i:]
            i += 1
            args = []
            while tk[i] != ')':
                aty, i = P.parse_type(tk, i)
                attrs = None
                while True:
                    t = tk[i]
                    if t in PARAM_ATTRS:
                        i += 1
                    elif t in PARAM_ATTRS_T:
                        bty, i2 = P.parse_type(tk, i + 2)
                        attrs = attrs or {}
                        attrs[t] = bty
                        i = i2 + 1
                    elif t in PARAM_ATTRS_N:
                        i += 4 if tk[i + 1] == '(' else 2
                    else:
                        break
                if aty.__class__ is MiscT:
                    # metadata argument: skip to next comma at depth 0
                    d = 0
                    while not (d == 0 and tk[i] in (',', ')')):
                        if tk[i] == '(':
                            d += 1
                        elif tk[i] == ')':
                            d -= 1
                        i += 1
                    v = ('int', 0)
                else:
                    v, i = P.parse_value(aty, tk, i)
                args.append((aty, v, attrs))
                if tk[i] == ',':
                    i += 1
            return Instr('call', dest, rty, [callee] + args, fty, dbg)
        if op == 'load':
            while tk[i] in ('volatile', 'atomic'):
                i += 1
            ty, i = P.parse_type(tk, i)
            assert tk[i] == ','
            pty, p, i = P.parse_typed_value(tk, i + 1)
            return Instr('load', dest, ty, [p], None, dbg)
        if op == 'store':
            while tk[i] in ('volatile', 'atomic'):
                i += 1
            ty, v, i = P.parse_typed_value(tk, i)
            assert tk[i] == ','
            pty, p, i = P.parse_typed_value(tk, i + 1)
            return Instr('store', None, ty, [v, p], None, dbg)
        if op == 'getelementptr':
            if tk[i] == 'inbounds':
                i += 1
            sty, i = P.parse_type(tk, i)
            assert tk[i] == ','
            pty, base, i = P.parse_typed_value(tk, i + 1)
            idx = []
            while i < len(tk) and tk[i] == ',':
                ity, iv, i = P.parse_typed_value(tk, i + 1)
                idx.append((ity, iv))
            return Instr('gep', dest, sty, [base] + idx, None, dbg)
        if op in ('bitcast', 'ptrtoint', 'inttoptr', 'sext', 'zext', 'trunc', 'addrspacecast',
                  'fptosi', 'fptoui', 'sitofp', 'uitofp', 'fpext', 'fptrunc'):
            fty, v, i = P.parse_typed_value(tk, i)
            assert tk[i] == 'to'
            tty, i = P.parse_type(tk, i + 1)
            return Instr(op, dest, tty, [v], fty, dbg)
        if op == 'icmp':
            pred = tk[i]
            ty, a, i = P.parse_typed_value(tk, i + 1)
            assert tk[i] == ','
            b, i = P.parse_value(ty, tk, i + 1)
            return Instr('icmp', dest, ty, [a, b], pred, dbg)
        if op in ('add', 'sub', 'mul', 'and', 'or', 'xor', 'shl', 'lshr', 'ashr', 'udiv', 'sdiv',
                  'urem', 'srem'):
            flags = set()
            while tk[i] in ('nsw', 'nuw', 'exact'):
                flags.add(tk[i])
                i += 1
            ty, a, i = P.parse_typed_value(tk, i)
            assert tk[i] == ','
            b, i = P.parse_value(ty, tk, i + 1)
            return Instr(op, dest, ty, [a, b], flags, dbg)
        if op == 'br':
            if tk[i] == 'label':
                return Instr('br', None, VOID, [tk[i + 1]], None, dbg)
            ty, c, i = P.parse_typed_value(tk, i)
            assert tk[i] == ',' and tk[i + 1] == 'label'
            t1 = tk[i + 2]
            t2 = tk[i + 5]
            return Instr('condbr', None, VOID, [c, t1, t2], None, dbg)
        if op == 'switch':
            ty, v, i = P.parse_typed_value(tk, i)
            assert tk[i] == ',' and tk[i + 1] == 'label'
            default = tk[i + 2]
            i += 3
            assert tk[i] == '['
            i += 1
            cases = []
            while tk[i] != ']':
                cty, cv, i = P.parse_typed_value(tk, i)
                assert tk[i] == ',' and tk[i + 1] == 'label'
                cases.append((cv[1], tk[i + 2]))
                i += 3
            return Instr('switch', None, ty, [v, default, cases], None, dbg)
        if op == 'phi':
            ty, i = P.parse_type(tk, i)
            inc = []
            while i < len(tk) and tk[i] == '[':
                v, i = P.parse_value(ty, tk, i + 1)
                assert tk[i] == ','
                inc.append((v, tk[i + 1]))
                assert tk[i + 2] == ']'
                i += 3
                if i < len(tk) and tk[i] == ',':
                    i += 1
            return Instr('phi', dest, ty, inc, None, dbg)
        if op == 'select':
            cty, c, i = P.parse_typed_value(tk, i)
            assert tk[i] == ','
            ty, a, i = P.parse_typed_value(tk, i + 1)
            assert tk[i] == ','
            ty2, b, i = P.parse_typed_value(tk, i + 1)
            return Instr('select', dest, ty, [c, a, b], None, dbg)
        if op == 'ret':
            if tk[i] == 'void':
                return Instr('ret', None, VOID, [], None, dbg)
            ty, v, i = P.parse_typed_value(tk, i)
            return Instr('ret', None, ty, [v], None, dbg)
        if op == 'unreachable':
            return Instr('unreachable', None, VOID, [], None, dbg)
        if op == 'alloca':
            ty, i = P.parse_type(tk, i)
            cnt = None
            align = ty.align
            while i < len(tk) and tk[i] == ',':
                if tk[i + 1] == 'align':
                    align = int(tk[i + 2])
                    i += 3
                else:
                    cty, cnt, i = P.parse_typed_value(tk, i + 1)
            return Instr('alloca', dest, ty, [cnt] if cnt else [], align, dbg)
        if op == 'extractvalue':
            ty, v, i = P.parse_typed_value(tk, i)
            idx = []
            while i < len(tk) and tk[i] == ',':
                idx.append(int(tk[i + 1]))
                i += 2
            return Instr('extractvalue', dest, ty, [v], idx, dbg)
        if op == 'insertvalue':
            ty, v, i = P.parse_typed_value(tk, i)
            assert tk[i] == ','
            ety, e, i = P.parse_typed_value(tk, i + 1)
            idx = []
            while i < len(tk) and tk[i] == ',':
                idx.append(int(tk[i + 1]))
                i += 2
            return Instr('insertvalue', dest, ty, [v, e], (ety, idx), dbg)
        if op == 'fence':
            return None
        if op in ('atomicrmw', 'cmpxchg'):
            raise SyntaxError('atomic instruction not supported: ' + s)
        if op == 'freeze':
            ty, v, i = P.parse_typed_value(tk, i)
            return Instr('bitcast', dest, ty, [v], ty, dbg)
        raise SyntaxError('unknown instruction: ' + s)


def parse_file(path):
    with open(path) as f:
        return Parser(f.read()).parse()


if __name__ == '__main__':
    import sys
    import time
    t = time.time()
    m = parse_file(sys.argv[1])
    print('types', len(m.types), 'globals', len(m.globals), 'funcs', len(m.funcs),
          'defined', sum(1 for f in m.funcs.values() if f.defined),
          'instrs', sum(len(b.instrs) for f in m.funcs.values() for b in f.blocks),
          'in %.2fs' % (time.time() - t))
