"""ivsx executor: module loading, closure compilation, memory, solver glue,
forking, threads.  See core.py for the value/memory representation."""
import sys
import time
import z3
from collections import deque
from . import ir as IR
from .core import *

sys.setrecursionlimit(10000)


class SolverMgr:
    """z3 wrapper.  Path constraints are asserted once each as  guard -> c  and
    activated per query through assumptions (z3's pop() makes the following
    check ~10x slower, so scopes are never popped); the solvers are rebuilt
    when too many stale constraints have accumulated.

    Two engines: the primary one decides the exact integer translation of the
    bit-vector constraints (bv2int.py; z3's arithmetic core is 100x faster than
    bit-blasting on the order/difference constraints that dominate here); a
    query containing a term outside that translation goes to the bit-vector
    engine.  `xcheck` re-decides every n-th query on the other engine."""

    def __init__(self, timeout_ms, max_lits=400, xcheck=0):
        self.timeout_ms = timeout_ms
        self.max_lits = max_lits
        self.resets = 0
        self.xcheck = xcheck
        self.nq = 0
        self.n_int = 0
        self.n_bv = 0
        self.n_x = 0
        self.n_x_skipped = 0
        self.n_escalated = 0
        self.bl_cache = {}
        self.debug = False
        self.reset()

    def reset(self):
        from .bv2int import Translator
        self.si = z3.SimpleSolver()
        self.si.set('timeout', self.timeout_ms)
        self.sb = None
        self.lits_i = {}
        self.lits_b = {}
        self.keep = []
        self.tr = Translator()
        self.nside = 0
        self.unsupported = set()
        self.resets += 1

    def lit_b(self, c):
        k = c.get_id()
        l = self.lits_b.get(k)
        if l is None:
            if self.sb is None:
                self.sb = z3.SimpleSolver()
                self.sb.set('timeout', self.timeout_ms)
            l = z3.Bool('!g%d' % k)
            self.lits_b[k] = l
            self.keep.append(c)
            self.sb.add(z3.Implies(l, c))
        return l

    def lit_i(self, c):
        from .bv2int import Unsupported
        k = c.get_id()
        l = self.lits_i.get(k)
        if l is None:
            if k in self.unsupported:
                raise Unsupported('cached')
            try:
                ci = self.tr.t(c)
            except Unsupported:
                self.unsupported.add(k)
                self.keep.append(c)
                raise
            l = z3.Bool('!i%d' % k)
            self.lits_i[k] = l
            self.keep.append(c)
            self.si.add(z3.Implies(l, ci))
            side = self.tr.side
            if len(side) > self.nside:
                for sc in list(side.values())[self.nside:]:
                    self.si.add(sc)
                self.nside = len(side)
        return l

    def _check_int(self, pc, extra):
        lit = self.lit_i
        a = [lit(c) for c in pc]
        if extra is not None:
            a.append(lit(extra))
        r = self.si.check(a)
        m = None
        if r == z3.sat:
            mi = self.si.model()
            m = z3.Model()
            for iv, x, bits, lo_, hi_ in self.tr.vars.values():
                v = mi.eval(iv, model_completion=True)
                m.update_value(x, z3.BitVecVal(v.as_long(), bits))
        return r, m

    def _check_bv(self, pc, extra):
        lit = self.lit_b
        a = [lit(c) for c in pc]
        if extra is not None:
            a.append(lit(extra))
        r = self.sb.check(a)
        m = self.sb.model() if r == z3.sat else None
        return r, m

    _BITOPS = None

    def bitlevel(self, c):
        """does the constraint contain bit-level operations (-> bit-vector engine first)?"""
        k = c.get_id()
        r = self.bl_cache.get(k)
        if r is not None:
            return r[0]
        if SolverMgr._BITOPS is None:
            SolverMgr._BITOPS = {z3.Z3_OP_BAND, z3.Z3_OP_BOR, z3.Z3_OP_BXOR, z3.Z3_OP_BNOT, z3.Z3_OP_BSHL,
                                 z3.Z3_OP_BLSHR, z3.Z3_OP_BASHR, z3.Z3_OP_CONCAT, z3.Z3_OP_BNAND,
                                 z3.Z3_OP_BNOR, z3.Z3_OP_BXNOR, z3.Z3_OP_ROTATE_LEFT, z3.Z3_OP_ROTATE_RIGHT}
        bitops = SolverMgr._BITOPS
        seen = set()
        stack = [c]
        res = False
        while stack:
            e = stack.pop()
            i = e.get_id()
            if i in seen:
                continue
            seen.add(i)
            if z3.is_app(e):
                kk = e.decl().kind()
                if kk == z3.Z3_OP_CONCAT:
                    from .bv2int import is_sext_idiom
                    if is_sext_idiom(e):
                        stack.append(e.children()[-1])
                        continue
                if kk in bitops:
                    res = True
                    break
                if kk == z3.Z3_OP_EXTRACT:
                    hi, lo = e.params()
                    if lo != 0 or (hi + 1) not in (8, 16, 32, 64):
                        res = True
                        break
                stack.extend(e.children())
        self.bl_cache[k] = (res, c)
        if res and self.debug:
            sys.stderr.write('BITLEVEL %s\n' % c.sexpr()[:600])
        return res

    def _run(self, engine, pc, extra, timeout_ms):
        from .bv2int import Unsupported
        if engine == 'int':
            self.si.set('timeout', timeout_ms)
            try:
                r, m = self._check_int(pc, extra)
            except Unsupported:
                return None, None
            self.n_int += 1
            return r, m
        if self.sb is not None:
            self.sb.set('timeout', timeout_ms)
        self.lit_b(z3.BoolVal(True))
        self.sb.set('timeout', timeout_ms)
        r, m = self._check_bv(pc, extra)
        self.n_bv += 1
        return r, m

    def check(self, pc, extra=None):
        if len(self.lits_i) + len(self.lits_b) > self.max_lits + 2 * len(pc):
            self.reset()
        self.nq += 1
        bit = (extra is not None and self.bitlevel(extra)) or any(self.bitlevel(c) for c in pc)
        first, second = ('bv', 'int') if bit else ('int', 'bv')
        full = self.timeout_ms
        # portfolio with escalating timeouts: neither engine is good at everything
        plan = [(first, min(300, full)), (second, min(1500, full)), (first, full), (second, full)]
        r = z3.unknown
        m = None
        engine = None
        for eng, to in plan:
            t0 = time.time()
            r, m = self._run(eng, pc, extra, to)
            if self.debug:
                sys.stderr.write('Q eng=%s to=%d r=%s dt=%.3f pc=%d lits=%d/%d\n' % (eng, to, r, time.time() - t0, len(pc), len(self.lits_i), len(self.lits_b)))
            if r is None:
                r = z3.unknown
                continue
            if r == z3.unknown or time.time() - t0 > 0.03:
                # accumulated stale constraints make the incremental solver slow: start afresh
                fresh_needed = r == z3.unknown
                self.reset()
                if fresh_needed:
                    r, m = self._run(eng, pc, extra, to)
                    if r is None:
                        r = z3.unknown
                        continue
            if r != z3.unknown:
                engine = eng
                break
            self.n_escalated += 1
        if r == z3.unknown:
            raise Inconclusive('solver returned unknown on both engines within %d ms' % full)
        if self.xcheck and self.nq % self.xcheck == 0:
            other = 'bv' if engine == 'int' else 'int'
            r2, m2 = self._run(other, pc, extra, 400)
            if r2 is None or r2 == z3.unknown:
                self.n_x_skipped += 1
            else:
                self.n_x += 1
                if r2 != r:
                    raise MachineryError('solver engines disagree on a query: %s=%s %s=%s' % (engine, r, other, r2))
        if r == z3.sat and engine == 'int':
            # the model must satisfy the original bit-vector constraints
            for c in pc[-3:]:
                if not z3.is_true(m.eval(c, model_completion=True)):
                    raise MachineryError('integer-engine model does not satisfy a bit-vector constraint')
            if extra is not None and not z3.is_true(m.eval(extra, model_completion=True)):
                raise MachineryError('integer-engine model does not satisfy the queried bit-vector condition')
        return r == z3.sat, m


class CompiledFn:
    __slots__ = ('name', 'code', 'dbg', 'nparams', 'tail', 'irfn', 'file', 'vararg', 'islib',
                 'addr', 'fine', 'ncalls', 'scratch')

    def __init__(self, name):
        self.name = name
        self.code = None
        self.ncalls = 0


class Executor:
    def __init__(self, mod, opts=None):
        self.mod = mod
        self.opts = opts or {}
        self.stats = Stats()
        self.solver = SolverMgr(self.opts.get('query_timeout_ms', 10000), xcheck=self.opts.get('xcheck', 0))
        self.violations = []
        self.covers = set()
        self.worklist = []
        self.st = None
        self.th = None
        self.fr = None
        self.fns = {}
        self.fn_by_addr = {}
        self.vars_cache = {}
        self.global_addr = {}
        self.base_objs = {}
        self.builtins = {}
        self.max_steps = self.opts.get('max_steps', 2000000)
        self.max_preempt = self.opts.get('max_preempt', 2)
        self.split_depth = None
        self.prefixes = []
        self.samples = []
        self.replay_values = None
        self.lib_prefix = self.opts.get('lib_prefix', '/repo/src/')
        self.fine_files = set(self.opts.get('fine_files', ()))
        self.trace_on = self.opts.get('trace', True)
        self.end_hooks = []
        self.quiescent_fn = None
        self.max_violations = self.opts.get('max_violations', 20)
        self.deadline = None
        from . import builtins as B
        B.install(self)
        self._load_module()

    # ------------------------------------------------------------------ loading
    def _load_module(self):
        mod = self.mod
        nid = 16
        # functions get ids first
        for name, f in mod.funcs.items():
            cf = CompiledFn(name)
            cf.irfn = f
            cf.addr = nid << OBJ_SHIFT
            cf.nparams = len(f.params)
            cf.vararg = f.fty.vararg
            loc = mod.loc(f.dbg) if f.dbg else None
            cf.file = loc[0] if loc else None
            cf.islib = bool(cf.file and cf.file.startswith(self.lib_prefix))
            cf.fine = bool(cf.file and cf.file.split('/')[-1] in self.fine_files)
            self.fns[name] = cf
            self.fn_by_addr[cf.addr] = cf
            self.global_addr[name] = cf.addr
            o = Obj(nid, 0, 'func', name)
            self.base_objs[nid] = o
            nid += 1
        for name, g in mod.globals.items():
            if name == 'llvm.global_ctors' or name.startswith('llvm.'):
                continue
            o = Obj(nid, max(g.ty.size, 1), 'global', name, fill=0)
            self.base_objs[nid] = o
            self.global_addr[name] = nid << OBJ_SHIFT
            nid += 1
        self.first_dyn_obj = nid
        for name, g in mod.globals.items():
            if name.startswith('llvm.'):
                continue
            if g.init is not None:
                o = self.base_objs[self.global_addr[name] >> OBJ_SHIFT]
                self._init_const(o, 0, g.ty, g.init)
        self.ctors = []
        g = mod.globals.get('llvm.global_ctors')
        if g is not None and g.init is not None and g.init[0] == 'agg':
            for ety, ev in g.init[2]:
                fnop = ev[2][1][1]
                self.ctors.append(fnop[1])
        for name, f in mod.funcs.items():
            if f.defined:
                self._compile(self.fns[name])

    def const_value(self, ty, op):
        k = op[0]
        if k == 'int':
            return op[1]
        if k == 'global':
            a = self.global_addr.get(op[1])
            if a is None:
                raise MachineryError('unknown global @' + op[1])
            return a
        if k == 'undef':
            return UNDEF
        if k == 'cexpr':
            e = op[1]
            if e == 'gep':
                base = self.const_value(None, op[3])
                off, var = self._gep_plan(op[2], op[4], None)
                assert not var
                return (base + off) & M64
            if e in ('bitcast', 'ptrtoint', 'inttoptr', 'addrspacecast'):
                v = self.const_value(op[2], op[3])
                if e == 'ptrtoint' and v is not UNDEF:
                    v &= op[4].mask
                return v
            if e in ('trunc', 'zext'):
                v = self.const_value(op[2], op[3])
                return v & op[4].mask
            if e == 'sext':
                v = self.const_value(op[2], op[3])
                return sgn(v, op[2].bits) & op[4].mask
            if e == 'icmp':
                a = self.const_value(op[3], op[4])
                b = self.const_value(op[3], op[5])
                bits = op[3].bits
                pr = op[2]
                if pr[0] == 's':
                    a = sgn(a, bits)
                    b = sgn(b, bits)
                return int({'eq': a == b, 'ne': a != b, 'ult': a < b, 'ule': a <= b, 'ugt': a > b,
                            'uge': a >= b, 'slt': a < b, 'sle': a <= b, 'sgt': a > b, 'sge': a >= b}[pr])
            if e in ('add', 'sub', 'mul', 'and', 'or', 'xor'):
                a = self.const_value(op[2], op[3])
                b = self.const_value(op[2], op[4])
                m = op[2].mask
                return {'add': a + b, 'sub': a - b, 'mul': a * b, 'and': a & b, 'or': a | b,
                        'xor': a ^ b}[e] & m
        raise MachineryError('unsupported constant %r' % (op,))

    def _init_const(self, o, off, ty, op):
        k = op[0]
        if k == 'zero':
            return
        if k == 'cstr':
            for i, b in enumerate(op[1]):
                if b:
                    o.data[off + i] = (1, b)
            return
        if k == 'agg':
            if ty.is_struct:
                offs = ty.offsets
                for i, (ety, ev) in enumerate(op[2]):
                    self._init_const(o, off + offs[i], ety, ev)
            else:
                es = ty.elem.size
                for i, (ety, ev) in enumerate(op[2]):
                    self._init_const(o, off + i * es, ety, ev)
            return
        if k == 'undef':
            return
        v = self.const_value(ty, op)
        if v != 0:
            o.data[off] = (ty.size, v)

    def _gep_plan(self, sty, idx, slotf):
        off = 0
        var = []
        cur = sty
        first = True
        for ity, iv in idx:
            if first:
                scale = cur.size
                first = False
            elif cur.is_struct:
                assert iv[0] == 'int'
                n = iv[1]
                off += cur.offsets[n]
                cur = cur.fields[n]
                continue
            else:
                cur = cur.elem
                scale = cur.size
            if iv[0] == 'int':
                off += sgn(iv[1], ity.bits) * scale
            elif iv[0] == 'cexpr':
                off += sgn(self.const_value(ity, iv), ity.bits) * scale
            else:
                var.append((slotf(ity, iv), scale, ity.bits))
        return off, var

    # ------------------------------------------------------------------ compile
    def _compile(self, cf):
        f = cf.irfn
        mod = self.mod
        slot_of = {}
        alias = {}
        n = 0
        for pname, pty, attrs in f.params:
            slot_of[pname] = n
            n += 1
        nparams = n
        # unnamed params get implicit names %0..%k
        for i, (pname, pty, attrs) in enumerate(f.params):
            if pname is None:
                slot_of['%' + str(i)] = i
        # pass 1: assign slots to dests
        for b in f.blocks:
            for ins in b.instrs:
                if ins.dest is not None:
                    slot_of[ins.dest] = n
                    n += 1
        scratch = n
        n += 1
        cf.scratch = scratch
        consts = []      # (slot, value)
        const_slots = {}

        def cslot(v):
            nonlocal n
            key = (type(v), v) if v is not UNDEF else 'undef'
            s = const_slots.get(key)
            if s is None:
                s = const_slots[key] = n
                consts.append((n, v))
                n += 1
            return s

        def slot(ty, op):
            if op[0] == 'reg':
                s = slot_of.get(op[1])
                if s is None:
                    raise MachineryError('%s: undefined register %s' % (cf.name, op[1]))
                return s
            return cslot(self.const_value(ty, op))

        # block start indices: flatten; phis are handled on edges
        code = []
        dbgs = []
        block_start = {}
        phis = {}
        fixups = []

        for b in f.blocks:
            block_start[b.name] = None
            phis[b.name] = [ins for ins in b.instrs if ins.op == 'phi']

        def edge_moves(frm, to):
            mv = []
            for p in phis[to]:
                for v, lbl in p.ops:
                    if lbl == frm:
                        mv.append((slot_of[p.dest], slot(p.ty, v)))
                        break
                else:
                    raise MachineryError('phi without incoming for %s in %s' % (frm, cf.name))
            return mv

        ex = self
        for b in f.blocks:
            block_start[b.name] = len(code)
            for ins in b.instrs:
                if ins.op == 'phi':
                    continue
                c = self._compile_instr(cf, b, ins, slot, slot_of, scratch, edge_moves, fixups,
                                        len(code))
                code.append(c)
                dbgs.append(ins.dbg)
        # resolve branch targets
        for fx in fixups:
            fx(block_start)
        tail = [None] * (n - nparams)
        for s, v in consts:
            tail[s - nparams] = v
        cf.tail = tail
        cf.code = code
        cf.dbg = dbgs
        if cf.fine:
            cf.code = [self._wrap_fine(c) for c in code]

    def _wrap_fine(self, c):
        def op(ex, fr):
            if ex.async_flag_addr and ex.async_pending():
                r = ex.async_point(fr)
                if r:
                    return r
            return c(ex, fr)
        return op

    def _compile_instr(self, cf, blk, ins, slot, slot_of, scratch, edge_moves, fixups, idx):
        op = ins.op
        ex = self
        d = slot_of[ins.dest] if ins.dest is not None else scratch
        ty = ins.ty
        if op in ('bitcast', 'inttoptr', 'addrspacecast'):
            s = slot(ins.extra, ins.ops[0])

            def f_mov(ex, fr):
                r = fr.regs
                r[d] = r[s]
            return f_mov
        if op == 'ptrtoint':
            s = slot(ins.extra, ins.ops[0])
            mask = ty.mask
            if ty.bits >= 64:
                def f_mov(ex, fr):
                    r = fr.regs
                    r[d] = r[s]
                return f_mov

            def f_p2i(ex, fr):
                r = fr.regs
                v = r[s]
                if type(v) is int:
                    r[d] = v & mask
                else:
                    r[d] = ex.sym_trunc(v, 64, ty.bits)
            return f_p2i
        if op == 'load':
            p = slot(None, ins.ops[0])
            nbytes = ty.size
            if not (ty.is_int or ty.is_ptr):
                raise MachineryError('load of aggregate/float type in ' + cf.name)
            bits = ty.bits
            if bits == 1:
                def f_load1(ex, fr):
                    r = fr.regs
                    v = ex.load(r[p], 1)
                    if type(v) is int:
                        r[d] = v & 1
                    elif v is UNDEF:
                        r[d] = v
                    else:
                        r[d] = z3.Extract(0, 0, v) == 1
                return f_load1

            def f_load(ex, fr):
                r = fr.regs
                a = r[p]
                # inline fast path
                if type(a) is int:
                    o = ex.st.objs.get(a >> 32)
                    if o is not None and o.alive and ex.hbmon is None:
                        off = a & 0xffffffff
                        c = o.data.get(off)
                        if c is not None and c[0] == nbytes:
                            r[d] = c[1]
                            return
                r[d] = ex.load(a, nbytes)
            return f_load
        if op == 'store':
            v = slot(ty, ins.ops[0])
            p = slot(None, ins.ops[1])
            if not (ty.is_int or ty.is_ptr):
                raise MachineryError('store of aggregate/float type in ' + cf.name)
            nbytes = ty.size
            bits = ty.bits

            def f_store(ex, fr):
                r = fr.regs
                val = r[v]
                if bits == 1 and type(val) is not int and val is not UNDEF:
                    val = bv(val, 8)
                ex.store(r[p], nbytes, val)
            return f_store
        if op == 'gep':
            base = slot(None, ins.ops[0])
            off, var = self._gep_plan(ty, ins.ops[1:], slot)
            if not var:
                def f_gepc(ex, fr):
                    r = fr.regs
                    b = r[base]
                    if type(b) is int:
                        r[d] = (b + off) & M64
                    else:
                        r[d] = ex.sym_add_const(b, off)
                return f_gepc
            if len(var) == 1:
                vs, scale, vbits = var[0]
                half = 1 << (vbits - 1)
                full = 1 << vbits

                def f_gep1(ex, fr):
                    r = fr.regs
                    b = r[base]
                    i = r[vs]
                    if type(b) is int and type(i) is int:
                        if i >= half:
                            i -= full
                        r[d] = (b + off + i * scale) & M64
                    else:
                        r[d] = ex.sym_gep(b, off, [(i, scale, vbits)])
                return f_gep1

            def f_gepn(ex, fr):
                r = fr.regs
                r[d] = ex.sym_gep(r[base], off, [(r[vs], sc, vb) for vs, sc, vb in var])
            return f_gepn
        if op == 'icmp':
            a = slot(ty, ins.ops[0])
            b = slot(ty, ins.ops[1])
            pred = ins.extra
            bits = ty.bits
            return self._mk_icmp(pred, a, b, d, bits)
        if op in ('add', 'sub', 'mul', 'and', 'or', 'xor', 'shl', 'lshr', 'ashr', 'udiv', 'sdiv',
                  'urem', 'srem'):
            a = slot(ty, ins.ops[0])
            b = slot(ty, ins.ops[1])
            return self._mk_binop(op, a, b, d, ty.bits, ins.extra)
        if op in ('zext', 'sext', 'trunc'):
            s = slot(ins.extra, ins.ops[0])
            fb = ins.extra.bits
            tb = ty.bits
            mask = ty.mask
            if op == 'zext':
                def f_zext(ex, fr):
                    r = fr.regs
                    v = r[s]
                    if type(v) is int:
                        r[d] = v
                    else:
                        r[d] = ex.sym_zext(v, fb, tb)
                return f_zext
            if op == 'sext':
                half = 1 << (fb - 1)
                ext = mask ^ ((1 << fb) - 1)

                def f_sext(ex, fr):
                    r = fr.regs
                    v = r[s]
                    if type(v) is int:
                        r[d] = (v | ext) if v >= half else v
                    else:
                        r[d] = ex.sym_sext(v, fb, tb)
                return f_sext

            def f_trunc(ex, fr):
                r = fr.regs
                v = r[s]
                if type(v) is int:
                    r[d] = v & mask
                else:
                    r[d] = ex.sym_trunc(v, fb, tb)
            return f_trunc
        if op == 'br':
            tgt = ins.ops[0]
            mv = edge_moves(blk.name, tgt)
            cell = [0]
            fixups.append(lambda bs: cell.__setitem__(0, bs[tgt]))
            if not mv:
                def f_br(ex, fr):
                    fr.pc = cell[0]
                    ex.st.steps += 1
                return f_br
            if len(mv) == 1:
                md, ms = mv[0]

                def f_br1(ex, fr):
                    r = fr.regs
                    r[md] = r[ms]
                    fr.pc = cell[0]
                    ex.st.steps += 1
                return f_br1

            def f_brn(ex, fr):
                r = fr.regs
                vals = [r[ms] for md, ms in mv]
                i = 0
                for md, ms in mv:
                    r[md] = vals[i]
                    i += 1
                fr.pc = cell[0]
                ex.st.steps += 1
            return f_brn
        if op == 'condbr':
            c = slot(IR.int_t(1), ins.ops[0])
            t1, t2 = ins.ops[1], ins.ops[2]
            mv1 = edge_moves(blk.name, t1)
            mv2 = edge_moves(blk.name, t2)
            cell = [0, 0]

            def fx(bs):
                cell[0] = bs[t1]
                cell[1] = bs[t2]
            fixups.append(fx)

            def f_cbr(ex, fr):
                r = fr.regs
                v = r[c]
                if type(v) is not int:
                    v = ex.branch(v)
                st = ex.st
                st.steps += 1
                if v:
                    if mv1:
                        vals = [r[ms] for md, ms in mv1]
                        i = 0
                        for md, ms in mv1:
                            r[md] = vals[i]
                            i += 1
                    fr.pc = cell[0]
                else:
                    if mv2:
                        vals = [r[ms] for md, ms in mv2]
                        i = 0
                        for md, ms in mv2:
                            r[md] = vals[i]
                            i += 1
                    fr.pc = cell[1]
                if st.steps > ex.max_steps:
                    ex.bound_exceeded()
            return f_cbr
        if op == 'switch':
            v = slot(ty, ins.ops[0])
            default = ins.ops[1]
            cases = ins.ops[2]
            labels = [default] + [l for _, l in cases]
            moves = {l: edge_moves(blk.name, l) for l in set(labels)}
            table = {}
            starts = {}

            def fx(bs):
                for cv, l in cases:
                    table[cv & ty.mask] = l
                for l in labels:
                    starts[l] = bs[l]
            fixups.append(fx)
            bits = ty.bits

            def f_switch(ex, fr):
                r = fr.regs
                x = r[v]
                if type(x) is not int:
                    x = ex.concretize(x, bits)
                l = table.get(x, default)
                mv = moves[l]
                if mv:
                    vals = [r[ms] for md, ms in mv]
                    for i, (md, ms) in enumerate(mv):
                        r[md] = vals[i]
                fr.pc = starts[l]
                ex.st.steps += 1
            return f_switch
        if op == 'select':
            c = slot(IR.int_t(1), ins.ops[0])
            a = slot(ty, ins.ops[1])
            b = slot(ty, ins.ops[2])
            bits = ty.bits

            def f_select(ex, fr):
                r = fr.regs
                cv = r[c]
                if type(cv) is int:
                    r[d] = r[a] if cv else r[b]
                else:
                    r[d] = ex.sym_select(cv, r[a], r[b], bits)
            return f_select
        if op == 'ret':
            if ins.ops:
                s = slot(ty, ins.ops[0])

                def f_ret(ex, fr):
                    return ex.do_ret(fr, fr.regs[s])
                return f_ret

            def f_retv(ex, fr):
                return ex.do_ret(fr, 0)
            return f_retv
        if op == 'unreachable':
            def f_unreach(ex, fr):
                ex.violation('ub', 'unreachable', 'reached unreachable')
            return f_unreach
        if op == 'alloca':
            size = ty.size
            cnt = slot(IR.int_t(64), ins.ops[0]) if ins.ops else None
            site = cf.name

            def f_alloca(ex, fr):
                n = size
                if cnt is not None:
                    k = fr.regs[cnt]
                    if type(k) is not int:
                        k = ex.concretize(k, 64)
                    n = size * k
                st = ex.st
                oid = st.next_obj
                st.next_obj = oid + 1
                o = Obj(oid, n, 'stack', site)
                o.owner = st.sid
                st.objs[oid] = o
                if fr.allocas is None:
                    fr.allocas = [oid]
                else:
                    fr.allocas.append(oid)
                fr.regs[d] = oid << 32
            return f_alloca
        if op == 'call':
            return self._compile_call(cf, ins, slot, d)
        if op == 'asm':
            def f_asm(ex, fr):
                return None
            return f_asm
        if op == 'extractvalue':
            s = slot(ty, ins.ops[0])
            idx = ins.extra

            def f_ev(ex, fr):
                v = fr.regs[s]
                for i in idx:
                    v = v[i]
                fr.regs[d] = v
            return f_ev
        if op == 'insertvalue':
            s = slot(ty, ins.ops[0]) if ins.ops[0][0] != 'undef' else None
            e = slot(ins.extra[0], ins.ops[1])
            idx = ins.extra[1]
            nfields = len(ty.fields) if ty.is_struct else ty.n
            assert len(idx) == 1

            def f_iv(ex, fr):
                v = list(fr.regs[s]) if s is not None else [UNDEF] * nfields
                v[idx[0]] = fr.regs[e]
                fr.regs[d] = tuple(v)
            return f_iv
        raise MachineryError('cannot compile %s in %s' % (op, cf.name))

    def _mk_icmp(self, pred, a, b, d, bits):
        half = 1 << (bits - 1)
        full = 1 << bits
        if pred == 'eq':
            def f(ex, fr):
                r = fr.regs
                x = r[a]
                y = r[b]
                if type(x) is int and type(y) is int:
                    r[d] = 1 if x == y else 0
                else:
                    r[d] = ex.sym_icmp(pred, x, y, bits)
            return f
        if pred == 'ne':
            def f(ex, fr):
                r = fr.regs
                x = r[a]
                y = r[b]
                if type(x) is int and type(y) is int:
                    r[d] = 1 if x != y else 0
                else:
                    r[d] = ex.sym_icmp(pred, x, y, bits)
            return f
        import operator
        cmp = {'ult': operator.lt, 'ule': operator.le, 'ugt': operator.gt, 'uge': operator.ge,
               'slt': operator.lt, 'sle': operator.le, 'sgt': operator.gt, 'sge': operator.ge}[pred]
        if pred[0] == 'u':
            def f(ex, fr):
                r = fr.regs
                x = r[a]
                y = r[b]
                if type(x) is int and type(y) is int:
                    r[d] = 1 if cmp(x, y) else 0
                else:
                    r[d] = ex.sym_icmp(pred, x, y, bits)
            return f

        def f(ex, fr):
            r = fr.regs
            x = r[a]
            y = r[b]
            if type(x) is int and type(y) is int:
                if x >= half:
                    x -= full
                if y >= half:
                    y -= full
                r[d] = 1 if cmp(x, y) else 0
            else:
                r[d] = ex.sym_icmp(pred, x, y, bits)
        return f

    def _mk_binop(self, op, a, b, d, bits, flags):
        mask = (1 << bits) - 1
        half = 1 << (bits - 1)
        full = 1 << bits
        if op == 'add':
            def f(ex, fr):
                r = fr.regs
                x = r[a]
                y = r[b]
                if type(x) is int and type(y) is int:
                    r[d] = (x + y) & mask
                else:
                    r[d] = ex.sym_binop(op, x, y, bits)
            return f
        if op == 'sub':
            def f(ex, fr):
                r = fr.regs
                x = r[a]
                y = r[b]
                if type(x) is int and type(y) is int:
                    r[d] = (x - y) & mask
                else:
                    r[d] = ex.sym_binop(op, x, y, bits)
            return f
        if op == 'and':
            def f(ex, fr):
                r = fr.regs
                x = r[a]
                y = r[b]
                if type(x) is int and type(y) is int:
                    r[d] = x & y
                else:
                    r[d] = ex.sym_binop(op, x, y, bits)
            return f

        def conc(x, y):
            if op == 'mul':
                return (x * y) & mask
            if op == 'or':
                return x | y
            if op == 'xor':
                return x ^ y
            if op == 'shl':
                if y >= bits:
                    return None
                return (x << y) & mask
            if op == 'lshr':
                if y >= bits:
                    return None
                return x >> y
            if op == 'ashr':
                if y >= bits:
                    return None
                return (sgn(x, bits) >> y) & mask
            if op == 'udiv':
                if y == 0:
                    return None
                return x // y
            if op == 'urem':
                if y == 0:
                    return None
                return x % y
            if op in ('sdiv', 'srem'):
                if y == 0:
                    return None
                sx = sgn(x, bits)
                sy = sgn(y, bits)
                q = abs(sx) // abs(sy)
                if (sx < 0) != (sy < 0):
                    q = -q
                if op == 'sdiv':
                    return q & mask
                return (sx - q * sy) & mask
            raise MachineryError(op)

        def f(ex, fr):
            r = fr.regs
            x = r[a]
            y = r[b]
            if type(x) is int and type(y) is int:
                v = conc(x, y)
                if v is None:
                    ex.violation('ub', 'div0-or-shift', '%s by %d' % (op, y))
                r[d] = v
            else:
                r[d] = ex.sym_binop(op, x, y, bits)
        return f

    def _compile_call(self, cf, ins, slot, d):
        callee = ins.ops[0]
        argspec = []
        for aty, av, attrs in ins.ops[1:]:
            if aty.is_struct or aty.is_array:
                raise MachineryError('aggregate call argument in ' + cf.name)
            byval = attrs.get('byval') if attrs else None
            argspec.append((slot(aty, av), byval))
        aslots = [a for a, _ in argspec]
        has_byval = any(bvl for _, bvl in argspec)
        ex = self
        if callee[0] == 'global':
            name = callee[1]
            if name.startswith('llvm.'):
                base = name.split('.')[1]
                name = {'memcpy': 'memcpy', 'memmove': 'memmove', 'memset': 'memset'}.get(base, name)
            bi = self.builtins.get(name)
            target = self.fns.get(name)
            if target is not None and target.irfn.defined and not (bi is not None and getattr(bi, 'override', False)):
                return self._mk_direct_call(target, aslots, d, argspec if has_byval else None)
            if bi is not None:
                def f_bi(ex, fr):
                    r = fr.regs
                    return bi(ex, fr, [r[s] for s in aslots], d)
                return f_bi

            def f_missing(ex, fr):
                raise MachineryError('call to unmodelled external function %s from %s' % (name, cf.name))
            return f_missing
        # indirect
        cs = slot(None, callee)

        def f_icall(ex, fr):
            r = fr.regs
            t = r[cs]
            if type(t) is not int:
                if t is UNDEF:
                    ex.violation('mem', 'uninit-call', 'indirect call through uninitialised pointer')
                t = ex.concretize(t, 64)
            fn = ex.fn_by_addr.get(t)
            if fn is None:
                ex.violation('mem', 'bad-call', 'indirect call to non-function 0x%x' % t)
            args = [r[s] for s in aslots]
            if fn.code is None:
                bi = ex.builtins.get(fn.name)
                if bi is None:
                    raise MachineryError('indirect call to unmodelled external ' + fn.name)
                return bi(ex, fr, args, d)
            return ex.push_call(fn, args, d)
        return f_icall

    def _mk_direct_call(self, target, aslots, d, argspec):
        np = target.nparams
        na = len(aslots)
        stats = self.stats
        if argspec is None and na == np:
            def f_call(ex, fr):
                r = fr.regs
                target.ncalls += 1
                nf = Frame(target, [r[s] for s in aslots] + target.tail, d)
                ex.th.frames.append(nf)
                ex.fr = nf
                return True
            return f_call

        def f_callx(ex, fr):
            r = fr.regs
            args = [r[s] for s in aslots]
            if argspec is not None:
                for i, (s, byval) in enumerate(argspec):
                    if byval is not None:
                        args[i] = ex.copy_byval(fr, args[i], byval.size)
            return ex.push_call(target, args, d)
        return f_callx

    # ------------------------------------------------------------------ calls / frames
    def push_call(self, fn, args, d, on_ret=None):
        np = fn.nparams
        if len(args) != np:
            if len(args) > np:
                args = args[:np]
            else:
                args = args + [0] * (np - len(args))
        fn.ncalls += 1
        nf = Frame(fn, args + fn.tail, d)
        nf.on_ret = on_ret
        self.th.frames.append(nf)
        self.fr = nf
        return True

    def copy_byval(self, fr, addr, size):
        st = self.st
        oid = st.next_obj
        st.next_obj = oid + 1
        o = Obj(oid, size, 'stack', 'byval')
        o.owner = st.sid
        st.objs[oid] = o
        if fr.allocas is None:
            fr.allocas = [oid]
        else:
            fr.allocas.append(oid)
        self.memcpy(oid << 32, addr, size)
        return oid << 32

    def do_ret(self, fr, v):
        th = self.th
        frames = th.frames
        frames.pop()
        if fr.allocas:
            objs = self.st.objs
            for oid in fr.allocas:
                objs[oid] = DEAD_STACK
        if fr.on_ret is not None:
            r = fr.on_ret(self, v)
            if r is not None:
                return r
        if frames:
            caller = frames[-1]
            caller.regs[fr.dest] = v
            self.fr = caller
            return True
        return self.thread_finished(th, v)

    # ------------------------------------------------------------------ symbolic ops
    def sym_icmp(self, pred, x, y, bits):
        if x is UNDEF or y is UNDEF:
            return UNDEF
        if bits == 1:
            x = bv(x, 1) if not isinstance(x, BVRef) else x
            y = bv(y, 1) if not isinstance(y, BVRef) else y
        else:
            x = bv(x, bits)
            y = bv(y, bits)
        if pred == 'eq':
            r = x == y
        elif pred == 'ne':
            r = x != y
        elif pred == 'ult':
            r = z3.ULT(x, y)
        elif pred == 'ule':
            r = z3.ULE(x, y)
        elif pred == 'ugt':
            r = z3.UGT(x, y)
        elif pred == 'uge':
            r = z3.UGE(x, y)
        elif pred == 'slt':
            r = x < y
        elif pred == 'sle':
            r = x <= y
        elif pred == 'sgt':
            r = x > y
        else:
            r = x >= y
        return r

    def sym_binop(self, op, x, y, bits):
        if x is UNDEF or y is UNDEF:
            return UNDEF
        if bits == 1:
            xb = as_bool(x)
            yb = as_bool(y)
            if op == 'and':
                return fold(z3.And(xb, yb))
            if op == 'or':
                return fold(z3.Or(xb, yb))
            if op == 'xor':
                return fold(z3.Xor(xb, yb))
            if op == 'add' or op == 'sub':
                return fold(z3.Xor(xb, yb))
            raise MachineryError('i1 ' + op)
        if op in ('and', 'or', 'xor'):
            # keep 0/1-valued words boolean: zext(b1) & zext(b2) -> zext(b1 && b2)
            bx = self._as_boolword(x)
            if bx is not None:
                by = self._as_boolword(y)
                if by is not None:
                    if op == 'and':
                        r = z3.And(bx, by)
                    elif op == 'or':
                        r = z3.Or(bx, by)
                    else:
                        r = z3.Xor(bx, by)
                    rs = z3.simplify(r)
                    if z3.is_true(rs):
                        return 1
                    if z3.is_false(rs):
                        return 0
                    return z3.If(r, z3.BitVecVal(1, bits), z3.BitVecVal(0, bits))
        if type(y) is int:
            if op in ('add', 'sub', 'or', 'xor', 'shl', 'lshr', 'ashr') and y == 0:
                return x
            if op == 'and' and y == 0:
                return 0
            if op == 'mul' and y == 1:
                return x
        x = bv(x, bits)
        y = bv(y, bits)
        if op == 'add':
            return x + y
        if op == 'sub':
            return x - y
        if op == 'mul':
            return x * y
        if op == 'and':
            return x & y
        if op == 'or':
            return x | y
        if op == 'xor':
            return x ^ y
        if op == 'shl':
            self.check_ub(z3.ULT(y, bits), 'shift-width')
            return x << y
        if op == 'lshr':
            self.check_ub(z3.ULT(y, bits), 'shift-width')
            return z3.LShR(x, y)
        if op == 'ashr':
            self.check_ub(z3.ULT(y, bits), 'shift-width')
            return x >> y
        if op in ('udiv', 'urem', 'sdiv', 'srem'):
            self.check_ub(y != 0, 'div-by-zero')
            if op == 'udiv':
                return z3.UDiv(x, y)
            if op == 'urem':
                return z3.URem(x, y)
            if op == 'sdiv':
                return x / y
            return z3.SRem(x, y)
        raise MachineryError(op)

    @staticmethod
    def _as_boolword(x):
        """x is a word known to be 0/1: return the z3 Bool it encodes, else None"""
        if type(x) is int:
            if x == 0:
                return z3.BoolVal(False)
            if x == 1:
                return z3.BoolVal(True)
            return None
        if isinstance(x, BoolRef):
            return x
        if z3.is_app_of(x, z3.Z3_OP_ITE):
            a = x.arg(1)
            b = x.arg(2)
            if z3.is_bv_value(a) and z3.is_bv_value(b):
                av = a.as_long()
                bvv = b.as_long()
                if av == 1 and bvv == 0:
                    return x.arg(0)
                if av == 0 and bvv == 1:
                    return z3.Not(x.arg(0))
        return None

    def check_ub(self, cond, what):
        """cond must hold on every value; otherwise UB-class violation."""
        c = simp(cond)
        if z3.is_true(c):
            return
        sat, m = self.query(z3.Not(c), 'assert')
        if sat:
            self.violation('ub', what, what, model=m)
        # assume it from here on (implied by pc anyway)

    def sym_zext(self, v, fb, tb):
        if v is UNDEF:
            return v
        if isinstance(v, BoolRef):
            return z3.If(v, z3.BitVecVal(1, tb), z3.BitVecVal(0, tb))
        b = self._as_boolword(v)
        if b is not None:
            return z3.If(b, z3.BitVecVal(1, tb), z3.BitVecVal(0, tb))
        return z3.ZeroExt(tb - fb, v)

    def sym_sext(self, v, fb, tb):
        if v is UNDEF:
            return v
        if isinstance(v, BoolRef):
            return z3.If(v, z3.BitVecVal((1 << tb) - 1, tb), z3.BitVecVal(0, tb))
        if fb > 1:
            b = self._as_boolword(v)
            if b is not None:
                return z3.If(b, z3.BitVecVal(1, tb), z3.BitVecVal(0, tb))
        return z3.SignExt(tb - fb, v)

    def sym_trunc(self, v, fb, tb):
        if v is UNDEF:
            return v
        if isinstance(v, BoolRef):
            return v if tb == 1 else bv(v, tb)
        b = self._as_boolword(v)
        if b is not None:
            return b if tb == 1 else z3.If(b, z3.BitVecVal(1, tb), z3.BitVecVal(0, tb))
        if tb == 1:
            return fold(z3.Extract(0, 0, v) == 1)
        if z3.is_app_of(v, z3.Z3_OP_SIGN_EXT) or z3.is_app_of(v, z3.Z3_OP_ZERO_EXT):
            inner = v.arg(0)
            if inner.size() == tb:
                return inner
        return fold(z3.Extract(tb - 1, 0, v))

    def sym_select(self, c, a, b, bits):
        if c is UNDEF:
            self.violation('mem', 'uninit-use', 'select on uninitialised condition')
        c = as_bool(c)
        if a is UNDEF or b is UNDEF:
            # fork instead of building an ite over undef
            return a if self.branch(c) else b
        if bits == 1:
            return fold(z3.If(c, as_bool(a), as_bool(b)))
        return z3.If(c, bv(a, bits), bv(b, bits))

    def sym_add_const(self, b, off):
        if b is UNDEF:
            self.violation('mem', 'uninit-use', 'address computed from uninitialised pointer')
        return b + z3.BitVecVal(off & M64, 64)

    def sym_gep(self, b, off, idx):
        if b is UNDEF:
            self.violation('mem', 'uninit-use', 'address computed from uninitialised pointer')
        acc = bv(b, 64) + z3.BitVecVal(off & M64, 64)
        allc = type(b) is int
        tot = (b + off) if allc else 0
        for i, scale, bits in idx:
            if i is UNDEF:
                self.violation('mem', 'uninit-use', 'address computed from uninitialised index')
            if type(i) is int:
                si = sgn(i, bits)
                acc = acc + z3.BitVecVal((si * scale) & M64, 64)
                tot += si * scale
            else:
                allc = False
                if isinstance(i, BoolRef):
                    i = bv(i, bits)
                e = z3.SignExt(64 - bits, i) if bits < 64 else i
                acc = acc + e * z3.BitVecVal(scale, 64)
        if allc:
            return tot & M64
        return norm(acc)

    # ------------------------------------------------------------------ memory
    def _resolve(self, a, n, write):
        """address -> (obj, off), with all checks; returns writable copy when write."""
        if type(a) is not int:
            if a is UNDEF:
                self.violation('mem', 'uninit-use', 'memory access through uninitialised pointer')
            a = self.concretize(a, 64)
        st = self.st
        oid = a >> 32
        o = st.objs.get(oid)
        if o is None:
            if oid == 0:
                self.violation('mem', 'null-deref', 'NULL pointer dereference (offset %d)' % a)
            self.violation('mem', 'wild-pointer', 'access through invalid pointer 0x%x' % a)
        off = a & OFF_MASK
        if off >= 0x80000000:
            # a negative offset from the following object id: underflow of that object
            o2 = st.objs.get(oid + 1)
            if o2 is not None:
                self.violation('mem', 'out-of-bounds', 'access %d bytes before the start of %s object %s (size %d)'
                               % (0x100000000 - off, o2.kind, o2.site, o2.size))
        if not o.alive:
            self.violation('mem', 'use-after-free' if o.kind != 'dead-stack' else 'use-after-return',
                           'access to %s object (was %s) at offset %d' % (o.kind, o.site, off))
        if off + n > o.size:
            if o.kind == 'func':
                self.violation('mem', 'bad-access', 'data access to function ' + str(o.site))
            self.violation('mem', 'out-of-bounds', 'access [%d,%d) in %s object %s of size %d'
                           % (off, off + n, o.kind, o.site, o.size))
        if write and o.owner != st.sid:
            o = o.clone(st.sid)
            st.objs[oid] = o
        return o, off

    def load(self, a, n):
        o, off = self._resolve(a, n, False)
        if self.hbmon is not None:
            self.hbmon.access(self, o, off, n, False)
        c = o.data.get(off)
        if c is not None and c[0] == n:
            return c[1]
        return self._load_slow(o, off, n)

    def _byte_at(self, o, k):
        data = o.data
        c = data.get(k)
        if c is not None:
            v = c[1]
            if c[0] == 1:
                return v
            return self._extract_byte(v, 0)
        for dd in range(1, 8):
            c = data.get(k - dd)
            if c is not None:
                if c[0] > dd:
                    return self._extract_byte(c[1], dd)
                # a cell that ends before k: keep looking further back only
                # if an even earlier, longer cell could still cover k
        f = o.fill
        return UNDEF if f is None else f

    @staticmethod
    def _extract_byte(v, i):
        if type(v) is int:
            return (v >> (8 * i)) & 0xff
        if v is UNDEF:
            return v
        if isinstance(v, BoolRef):
            return bv(v, 8) if i == 0 else 0
        return z3.Extract(8 * i + 7, 8 * i, v)

    def _load_slow(self, o, off, n):
        if not o.data:
            f = o.fill
            if f is None:
                return UNDEF
            v = 0
            for i in range(n):
                v |= f << (8 * i)
            return v
        parts = [self._byte_at(o, k) for k in range(off, off + n)]
        allint = True
        for p in parts:
            if p is UNDEF:
                return UNDEF
            if type(p) is not int:
                allint = False
        if allint:
            v = 0
            for i, p in enumerate(parts):
                v |= p << (8 * i)
            return v
        parts = [bv(p, 8) for p in parts]
        if n == 1:
            return parts[0]
        return norm(z3.Concat(*reversed(parts)))

    def store(self, a, n, v):
        o, off = self._resolve(a, n, True)
        if self.hbmon is not None:
            self.hbmon.access(self, o, off, n, True)
        data = o.data
        c = data.get(off)
        if c is not None and c[0] == n:
            data[off] = (n, v)
            return
        self._store_slow(o, off, n, v)

    def _punch(self, o, off, n):
        """remove every cell overlapping [off, off+n), keeping outside bytes as byte cells"""
        data = o.data
        if not data:
            return
        end = off + n
        for s in range(off - 7, end):
            c = data.get(s)
            if c is None:
                continue
            cn = c[0]
            if s + cn <= off:
                continue
            del data[s]
            if s < off or s + cn > end:
                val = c[1]
                for i in range(cn):
                    k = s + i
                    if k < off or k >= end:
                        data[k] = (1, self._extract_byte(val, i))

    def _store_slow(self, o, off, n, v):
        self._punch(o, off, n)
        if n <= 8:
            o.data[off] = (n, v)
        else:
            for i in range(0, n, 8):
                m = min(8, n - i)
                if type(v) is int:
                    o.data[off + i] = (m, (v >> (8 * i)) & ((1 << (8 * m)) - 1))
                else:
                    o.data[off + i] = (m, z3.Extract(8 * (i + m) - 1, 8 * i, v))

    def memset(self, a, byte, n):
        if n == 0:
            return
        if type(n) is not int:
            n = self.concretize(n, 64)
        o, off = self._resolve(a, n, True)
        if self.hbmon is not None:
            self.hbmon.access(self, o, off, n, True)
        if type(byte) is int:
            byte &= 0xff
        if off == 0 and n == o.size and type(byte) is int:
            o.data.clear()
            o.fill = byte
            return
        self._punch(o, off, n)
        if o.fill == byte and type(byte) is int:
            return
        data = o.data
        if type(byte) is int:
            w = 0
            for i in range(8):
                w |= byte << (8 * i)
            k = off
            end = off + n
            while k + 8 <= end:
                data[k] = (8, w)
                k += 8
            while k < end:
                data[k] = (1, byte)
                k += 1
        else:
            bb = bv(byte, 8) if not isinstance(byte, BVRef) or byte.size() != 8 else byte
            if isinstance(bb, BVRef) and bb.size() > 8:
                bb = z3.Extract(7, 0, bb)
            for k in range(off, off + n):
                data[k] = (1, bb)

    def memcpy(self, dst, src, n):
        if type(n) is not int:
            n = self.concretize(n, 64)
        if n == 0:
            return
        so, soff = self._resolve(src, n, False)
        if self.hbmon is not None:
            self.hbmon.access(self, so, soff, n, False)
        # snapshot source cells first (memmove semantics, and dst may be the same object)
        cells = []
        sdata = so.data
        k = 0
        if not sdata:
            cells = None
        else:
            while k < n:
                c = sdata.get(soff + k)
                if c is not None and c[0] <= n - k:
                    cells.append((k, c[0], c[1]))
                    k += c[0]
                else:
                    cells.append((k, 1, self._byte_at(so, soff + k)))
                    k += 1
        sfill = so.fill
        do, doff = self._resolve(dst, n, True)
        if self.hbmon is not None:
            self.hbmon.access(self, do, doff, n, True)
        self._punch(do, doff, n)
        ddata = do.data
        if cells is None:
            if do.fill == sfill and sfill is not None:
                return
            for k in range(n):
                ddata[doff + k] = (1, UNDEF if sfill is None else sfill)
            return
        dfill = do.fill
        for k, cn, v in cells:
            if cn == 1 and type(v) is int and v == dfill:
                continue
            ddata[doff + k] = (cn, v)

    def malloc(self, size, site, zero=False):
        st = self.st
        oid = st.next_obj
        st.next_obj = oid + 1
        o = Obj(oid, size, 'heap', site, fill=0 if zero else None)
        o.owner = st.sid
        fr = self.fr
        o.lib = fr.fn.islib
        st.objs[oid] = o
        return oid << 32

    def free(self, a):
        if a == 0:
            return
        if type(a) is not int:
            if a is UNDEF:
                self.violation('mem', 'uninit-use', 'free of uninitialised pointer')
            a = self.concretize(a, 64)
        st = self.st
        o = st.objs.get(a >> 32)
        if o is None:
            self.violation('mem', 'bad-free', 'free of invalid pointer 0x%x' % a)
        if not o.alive:
            self.violation('mem', 'double-free', 'double free of object allocated in %s' % (o.site,))
        if o.kind != 'heap' or (a & OFF_MASK) != 0:
            self.violation('mem', 'bad-free', 'free of non-heap or interior pointer (%s %s)' % (o.kind, o.site))
        if self.hbmon is not None:
            if o.size <= 4096:
                self.hbmon.access(self, o, 0, o.size, True)
            else:
                # a large block: freeing it conflicts only with units that were accessed at all (object ids are
                # never reused, so untouched units need no record)
                hb = st.hb
                if hb is not None and hb.active:
                    oid = o.id
                    for k in [k for k in hb.shadow if k[0] == oid]:
                        self.hbmon.access(self, o, k[1] << 2, 4, True)
        t = Obj(o.id, o.size, 'freed-heap', '%s, freed in %s' % (o.site, self.fr.fn.name))
        t.alive = False
        st.objs[o.id] = t

    def cstr(self, a, maxlen=4096):
        out = bytearray()
        for i in range(maxlen):
            b = self.load(a + i, 1)
            if type(b) is not int:
                raise MachineryError('symbolic/uninit byte in C string')
            if b == 0:
                break
            out.append(b)
        return out.decode('latin1')

    def write_bytes(self, a, bs):
        for i, b in enumerate(bs):
            self.store(a + i, 1, b)

    # ------------------------------------------------------------------ solver / forking
    def vars_of(self, c):
        k = c.get_id()
        r = self.vars_cache.get(k)
        if r is None:
            acc = set()
            seen = set()
            stack = [c]
            while stack:
                e = stack.pop()
                i = e.get_id()
                if i in seen:
                    continue
                seen.add(i)
                if z3.is_const(e):
                    if e.decl().kind() == z3.Z3_OP_UNINTERPRETED:
                        acc.add(i)
                else:
                    stack.extend(e.children())
            r = (frozenset(acc), c)
            self.vars_cache[k] = r
            if len(self.vars_cache) > 200000:
                self.vars_cache.clear()
        return r[0]

    def slice_pc(self, pc, extra):
        """constraints of pc transitively sharing variables with extra (in pc order)"""
        need = set(self.vars_of(extra))
        vs = [self.vars_of(c) for c in pc]
        inn = [False] * len(pc)
        changed = True
        while changed:
            changed = False
            for i, v in enumerate(vs):
                if not inn[i] and not need.isdisjoint(v):
                    inn[i] = True
                    if not v <= need:
                        need |= v
                        changed = True
        return [c for i, c in enumerate(pc) if inn[i]], need

    def query(self, extra, kind):
        """(sat?, model).  With `extra`, only the independent slice of the path
        condition that shares variables with it is sent to the solver; the
        returned model is then completed from the state's cached full model."""
        st = self.st
        t = time.time()
        pc = st.pc
        need = None
        if extra is not None and len(pc) > 3:
            pc, need = self.slice_pc(pc, extra)
        try:
            sat, m = self.solver.check(pc, extra)
        finally:
            dt = time.time() - t
            if self.opts.get('slowlog') and dt > self.opts['slowlog']:
                sys.stderr.write('SLOW %.2fs kind=%s pc=%d/%d extra=%s\n' % (dt, kind, len(pc), len(st.pc), str(extra)[:300]))
                if self.opts.get('slowdump'):
                    ss = z3.Solver()
                    for c in pc:
                        ss.add(self.solver.tr.t(c))
                    if extra is not None:
                        ss.add(self.solver.tr.t(extra))
                    for sc in self.solver.tr.side.values():
                        ss.add(sc)
                    open(self.opts['slowdump'] + str(int(dt * 100)), 'w').write(ss.to_smt2())
            s = self.stats
            s.t_solver += dt
            if dt > s.max_query:
                s.max_query = dt
            if kind == 'assert':
                s.q_assert += 1
            else:
                s.q_branch += 1
        if sat and need is not None and len(pc) < len(st.pc):
            m = self.merge_model(m, need)
        return sat, m

    def merge_model(self, m, need):
        """model of a slice + the state's full model for the other variables"""
        st = self.st
        base = st.model
        if base is None:
            sat, base = self.solver.check(st.pc, None)
            if not sat:
                raise PathEnd('infeasible')
            st.model = base
        nm = z3.Model()
        for name, var in st.symvals:
            if var is None or not z3.is_const(var) or var.decl().kind() != z3.Z3_OP_UNINTERPRETED:
                continue
            src = m if var.get_id() in need else base
            nm.update_value(var, src.eval(var, model_completion=True))
        return nm

    def ensure_model(self):
        st = self.st
        if st.model is None:
            sat, m = self.query(None, 'branch')
            if not sat:
                raise PathEnd('infeasible')
            st.model = m
        return st.model

    def learn(self, c, val=True):
        """record that c (a simplified z3 Bool) is implied (val) or refuted by the path"""
        kn = self.st.known
        kn[c.get_id()] = (1 if val else 0, c)
        if z3.is_not(c):
            a = c.arg(0)
            kn[a.get_id()] = (0 if val else 1, a)

    def add_constraint(self, c, cs=None):
        st = self.st
        st.pc.append(c)
        self.learn(cs if cs is not None else z3.simplify(c))
        m = st.model
        if m is not None and not z3.is_true(m.eval(c, model_completion=True)):
            st.model = None

    def next_forced(self, kind):
        st = self.st
        f = st.forced
        if f is None:
            return None
        p = st.fpos
        if self.replay_values is not None:
            # concrete replay: branch entries are not consumed
            while p < len(f) and f[p][0] == 'b' and kind != 'b':
                p += 1
        if p >= len(f):
            if self.replay_values is not None:
                raise PathEnd('assume', 'replay: recorded decisions exhausted')
            st.forced = None
            return None
        e = f[p]
        if e[0] != kind and kind == 'b' and self.replay_values is None:
            # the run that recorded this prefix had this branch outcome implied by a fact it had cached (no
            # decision recorded); decide it again with the solver instead of consuming a recorded entry
            self.stats.resyncs += 1
            return None
        st.fpos = p + 1
        if e[0] != kind:
            raise MachineryError('replay diverged: expected %s decision, recorded %r' % (kind, e))
        return e[1]

    def _idecs(self):
        """decisions already taken inside the instruction being executed"""
        st = self.st
        key = (st.cur, len(self.th.frames), self.fr.pc, st.steps)
        if st.ikey != key:
            st.ikey = key
            st.idecs = []
        return st.idecs

    def _pop_pending(self, kind):
        st = self.st
        val, fresh = st.pending.popleft()
        if not st.pending:
            st.pending = None
        self._idecs().append(val)
        if fresh:
            st.decisions.append((kind, val))
        return val

    def _fork_reexec(self, kind, val, constraint=None, model=None, simplified=None):
        """clone the current state so that the clone re-executes the current
        instruction and takes alternative `val` at this decision point"""
        st = self.st
        self.stats.forks += 1
        clone = st.clone()
        th = clone.threads[clone.cur]
        th.frames[-1].pc -= 1
        clone.ikey = None
        clone.idecs = []
        clone.pending = deque([(v, False) for v in self._idecs()] + [(val, True)])
        if constraint is not None:
            clone.pc.append(constraint)
            clone.model = model
            kn = clone.known
            sc = simplified if simplified is not None else constraint
            kn[sc.get_id()] = (1, sc)
            if z3.is_not(sc):
                a = sc.arg(0)
                kn[a.get_id()] = (0, a)
        clone.nforks += 1
        self.worklist.append(clone)

    def _splitting(self):
        return self.split_depth is not None and self.st.nforks >= self.split_depth

    def branch(self, c):
        """c: symbolic i1.  Returns 0/1 for the current state; may fork.
        The simplified form is used only to detect constants and as the key of
        the known-facts cache; the constraint itself keeps its original shape
        (z3.simplify expands sign extensions into bit-level concatenations,
        which would push arithmetic queries onto the bit-blasting engine)."""
        if c is UNDEF:
            self.violation('mem', 'uninit-use', 'branch on uninitialised value')
        if not isinstance(c, BoolRef):
            c = as_bool(c)
        cs = z3.simplify(c)
        if z3.is_true(cs):
            return 1
        if z3.is_false(cs):
            return 0
        st = self.st
        if st.pending:
            return self._pop_pending('b')
        kn = st.known.get(cs.get_id())
        if kn is not None:
            self.stats.known_hits += 1
            return kn[0]
        d = self.next_forced('b')
        if d is not None:
            self.add_constraint(c if d else z3.Not(c), cs if d else z3.Not(cs))
            st.decisions.append(('b', d))
            self._idecs().append(d)
            return d
        st.symbranches += 1
        m = self.ensure_model()
        v = 1 if z3.is_true(m.eval(c, model_completion=True)) else 0
        self.stats.model_hits += 1
        other = z3.Not(c) if v else c
        sat, m2 = self.query(other, 'branch')
        if not sat:
            self.stats.infeasible += 1
            st.decisions.append(('b', v))
            self._idecs().append(v)
            self.learn(cs, v)
            return v
        # both feasible: fork
        if self.nofork:
            raise MachineryError('symbolic branch with two feasible sides inside a synchronous model call')
        if self._splitting():
            self.prefixes.append(st.decisions + [('b', v)])
            self.prefixes.append(st.decisions + [('b', 1 - v)])
            raise PathEnd('split')
        if self.opts.get('forklog') is not None:
            loc, stack = self.cur_loc()
            key = '%s:%s %s' % (loc[0].split('/')[-1] if loc and loc[0] else '?', loc[1] if loc else '?', stack[-1])
            fl = self.opts['forklog']
            fl[key] = fl.get(key, 0) + 1
        self._fork_reexec('b', 1 - v, other, m2, z3.Not(cs) if v else cs)
        st.nforks += 1
        st.pc.append(c if v else z3.Not(c))
        self.learn(cs, v)
        st.decisions.append(('b', v))
        self._idecs().append(v)
        return v

    def choose(self, n, kind='c'):
        """concrete n-way fork (re-execution style); returns this state's alternative"""
        st = self.st
        if n <= 1:
            return 0
        if st.pending:
            return self._pop_pending(kind)
        d = self.next_forced(kind)
        if d is not None:
            st.decisions.append((kind, d))
            self._idecs().append(d)
            return d
        if self.nofork:
            raise MachineryError('choice inside a synchronous model call')
        if self._splitting():
            for k in range(n):
                self.prefixes.append(st.decisions + [(kind, k)])
            raise PathEnd('split')
        for k in range(n - 1, 0, -1):
            self._fork_reexec(kind, k)
        st.nforks += 1
        st.decisions.append((kind, 0))
        self._idecs().append(0)
        return 0

    def choose_direct(self, n, kind, apply):
        """n-way fork without re-execution: apply(state, k) configures
        alternative k on the given state (clone or current)."""
        st = self.st
        d = self.next_forced(kind) if n > 1 else 0
        if d is None:
            if self._splitting():
                for k in range(n):
                    self.prefixes.append(st.decisions + [(kind, k)])
                raise PathEnd('split')
            for k in range(n - 1, 0, -1):
                self.stats.forks += 1
                clone = st.clone()
                clone.nforks += 1
                clone.decisions.append((kind, k))
                apply(clone, k)
                self.worklist.append(clone)
            st.nforks += 1
            d = 0
        if n > 1:
            st.decisions.append((kind, d))
        apply(st, d)
        return d

    def concretize(self, x, bits, cap=64):
        """all feasible values of x by forking; returns this state's value"""
        if type(x) is int:
            return x
        if x is UNDEF:
            self.violation('mem', 'uninit-use', 'use of uninitialised value')
        if isinstance(x, BoolRef):
            return self.branch(x)
        x = z3.simplify(x)
        c = concrete_of(x)
        if c is not None:
            return c
        st = self.st
        if st.pending:
            return self._pop_pending('v')
        v = self.next_forced('v')
        if v is not None:
            self.add_constraint(x == v)
            st.decisions.append(('v', v))
            self._idecs().append(v)
            return v
        if self.nofork:
            raise MachineryError('symbolic value concretised inside a synchronous model call')
        vals = []
        excl = []
        while True:
            sat, m = self.query(z3.And(*excl) if excl else None, 'branch')
            if not sat:
                break
            val = m.eval(x, model_completion=True).as_long()
            vals.append((val, m))
            excl.append(x != val)
            if len(vals) > cap:
                raise Inconclusive('more than %d feasible values for a symbolic address/index' % cap)
        if not vals:
            raise PathEnd('infeasible')
        if len(vals) > 1 and self._splitting():
            for val, m in vals:
                self.prefixes.append(st.decisions + [('v', val)])
            raise PathEnd('split')
        for val, m in vals[1:]:
            self._fork_reexec('v', val, x == val, m)
        val, m = vals[0]
        if len(vals) > 1:
            st.nforks += 1
        st.pc.append(x == val)
        st.model = m
        st.decisions.append(('v', val))
        self._idecs().append(val)
        return val

    # ------------------------------------------------------------------ verdicts
    def cur_loc(self):
        fr = self.fr
        if fr is None:
            return None, []
        stack = [f.fn.name for f in self.th.frames]
        loc = None
        for f in reversed(self.th.frames):
            pc = f.pc - 1
            dbg = f.fn.dbg[pc] if 0 <= pc < len(f.fn.dbg) else None
            if dbg:
                loc = self.mod.loc(dbg)
                if loc and loc[0]:
                    break
        return loc, stack

    def lib_loc(self):
        """innermost frame that is library code: (file,line,function)"""
        for f in reversed(self.th.frames):
            if f.fn.islib:
                pc = f.pc - 1
                dbg = f.fn.dbg[pc] if 0 <= pc < len(f.fn.dbg) else None
                loc = self.mod.loc(dbg) if dbg else None
                return loc, f.fn.name
        return None, None

    def model_values(self, model):
        st = self.st
        vals = []
        if model is None:
            if self.replay_values is not None:
                return list(self.replay_values)
            try:
                model = self.ensure_model()
            except PathEnd:
                return vals
        for name, var in st.symvals:
            v = model.eval(var, model_completion=True)
            vals.append((name, v.as_long()))
        return vals

    def violation(self, kind, oid, msg, model=None):
        loc, stack = self.cur_loc()
        liloc, lifn = self.lib_loc()
        st = self.st
        v = Violation(kind, oid, msg, loc, stack, [list(d) for d in st.decisions],
                      self.model_values(model), list(st.trace), sorted(st.covers))
        v.lib_loc = liloc
        v.lib_fn = lifn
        self.violations.append(v)
        raise PathEnd('violation', msg)

    def bound_exceeded(self):
        self.stats.bound_exceeded += 1
        loc, stack = self.cur_loc()
        raise Inconclusive('BOUND-EXCEEDED: path longer than %d steps at %s %s'
                           % (self.max_steps, loc, stack[-3:]))

    # ------------------------------------------------------------------ run loop
    hbmon = None
    async_flag_addr = 0

    def activate(self, st):
        self.st = st
        self.th = st.threads[st.cur]
        self.fr = self.th.frames[-1] if self.th.frames else None

    def run(self):
        """run the current state until PathEnd is raised"""
        while True:
            fr = self.fr
            code = fr.code
            while True:
                pc = fr.pc
                fr.pc = pc + 1
                if code[pc](self, fr):
                    break

    def make_initial_state(self, entry, args):
        st = State()
        st.objs = dict(self.base_objs)
        st.next_obj = self.first_dyn_obj
        th = Thread(0)
        st.threads.append(th)
        self.st = st
        self.th = th
        # chain: ctors..., then entry
        fn = self.fns[entry]
        seq = [self.fns[c] for c in self.ctors] + [fn]
        self._start_seq(th, seq, args)
        return st

    def _start_seq(self, th, seq, args):
        ex = self

        def start(i):
            f = seq[i]
            a = list(args) if i == len(seq) - 1 else []
            if i < len(seq) - 1:
                def on_ret(ex, v, i=i):
                    start(i + 1)
                    return True
                ex.push_call(f, a, 0, on_ret)
            else:
                ex.push_call(f, a, 0)
        start(0)

    def explore(self, entry, args=(), forced=None, replay_values=None):
        """explore all paths from entry; returns number of paths"""
        self.replay_values = replay_values
        st = self.make_initial_state(entry, list(args))
        if forced is not None:
            st.forced = [tuple(d) for d in forced]
        self.worklist.append(st)
        while self.worklist:
            if self.deadline is not None and time.time() > self.deadline:
                raise Inconclusive('INCONCLUSIVE budget: wall budget exhausted with %d states pending'
                                   % len(self.worklist))
            st = self.worklist.pop()
            self.activate(st)
            try:
                self.run()
            except PathEnd as e:
                self.finish_path(e)
            if len(self.violations) >= self.max_violations:
                break

    def finish_path(self, e):
        st = self.st
        s = self.stats
        if e.kind == 'infeasible':
            s.infeasible += 1
            return
        if e.kind == 'split':
            return
        s.paths += 1
        s.steps += st.steps
        if e.kind == 'assume':
            s.paths_assume += 1
        elif e.kind == 'violation':
            s.paths_viol += 1
        if (st.symbranches > 0 or st.sym_oracles > 0 or st.nsym > 0 or len(st.threads) > 1) and st.oracles > 0:
            s.nontrivial += 1
        self.covers |= st.covers
        if len(self.samples) < 4 and e.kind == 'ok':
            self.samples.append({'decisions': ['%s%d' % (k, v) for k, v in st.decisions][:200],
                                 'trace': st.trace[:60], 'steps': st.steps,
                                 'symbolic_branches': st.symbranches, 'oracle_evaluations': st.oracles})

    # ------------------------------------------------------------------ threads (see sched.py)
    def thread_finished(self, th, v):
        from . import sched
        return sched.thread_finished(self, th, v)

    def async_pending(self):
        v = self.load(self.async_flag_addr + 4 * self.st.cur, 4)
        return type(v) is int and v != 0

    def async_point(self, fr):
        from . import sched
        return sched.async_point(self, fr)


DEAD_STACK = Obj(0, 0, 'dead-stack', 'returned function')
DEAD_STACK.alive = False
