"""Build (from /repo's working tree) and explore a harness; parallel over
decision prefixes.  Used by /verif/check."""
import json
import multiprocessing as mp
import os
import re
import shutil
import subprocess
import sys
import time

from . import ir as IR
from .core import *
from .executor import Executor

REPO = os.environ.get('IVSX_REPO', '/repo')
VERIF = os.path.dirname(os.path.dirname(os.path.abspath(__file__)))

LIB_TUS = ['iv_avl', 'iv_event', 'iv_event_raw_posix', 'iv_fatal', 'iv_fd', 'iv_fd_epoll', 'iv_fd_poll',
           'iv_fd_pump', 'iv_inotify', 'iv_main_posix', 'iv_popen', 'iv_signal', 'iv_task',
           'iv_thread_posix', 'iv_tid_posix', 'iv_time_posix', 'iv_timer', 'iv_tls', 'iv_wait', 'iv_work']


def repo_flags():
    mk = os.path.join(REPO, 'src', 'Makefile')
    cfg = os.path.join(REPO, 'config.h')
    if not os.path.exists(mk) or not os.path.exists(cfg):
        raise MachineryError('%s or %s missing: /repo must be configured (autotools) before checks run' % (mk, cfg))
    txt = open(mk).read()
    m = re.search(r'^DEFS = (.*)$', txt, re.M)
    defs = m.group(1).split() if m else ['-DHAVE_CONFIG_H']
    m = re.search(r'^CPPFLAGS = (.*)$', txt, re.M)
    cpp = m.group(1).split() if m else []
    return defs + cpp + ['-D_GNU_SOURCE', '-DIVYKIS_VERIF',
                         '-I' + REPO, '-I' + os.path.join(REPO, 'src'), '-I' + os.path.join(REPO, 'src', 'include')]


def build(workdir, harness_srcs, lib_tus=None, extra_defs=(), opt_level='-O0'):
    """compile + link + mem2reg; returns path of the final .ll"""
    os.makedirs(workdir, exist_ok=True)
    flags = repo_flags() + list(extra_defs) + ['-I' + os.path.join(VERIF, 'env'), '-I' + os.path.join(VERIF, 'harness')]
    base = ['clang-14', opt_level, '-Xclang', '-disable-O0-optnone', '-fno-discard-value-names', '-g',
            '-S', '-emit-llvm', '-Wno-everything', '-fno-builtin']
    srcs = [os.path.join(REPO, 'src', t + '.c') for t in (LIB_TUS if lib_tus is None else lib_tus)]
    srcs += list(harness_srcs)
    procs = []
    outs = []
    for i, s in enumerate(srcs):
        o = os.path.join(workdir, '%02d_%s.ll' % (i, os.path.basename(s)[:-2]))
        outs.append(o)
        procs.append((s, subprocess.Popen(base + flags + [s, '-o', o], stderr=subprocess.PIPE)))
    for s, p in procs:
        err = p.communicate()[1]
        if p.returncode != 0:
            raise MachineryError('compile failed: %s\n%s' % (s, err.decode()[-3000:]))
    linked = os.path.join(workdir, 'linked.ll')
    r = subprocess.run(['llvm-link-14', '-S'] + outs + ['-o', linked], stderr=subprocess.PIPE)
    if r.returncode != 0:
        raise MachineryError('link failed: ' + r.stderr.decode()[-3000:])
    final = os.path.join(workdir, 'final.ll')
    r = subprocess.run(['opt-14', '-S', '-mem2reg', linked, '-o', final], stderr=subprocess.PIPE)
    if r.returncode != 0:
        raise MachineryError('opt failed: ' + r.stderr.decode()[-3000:])
    return final


# ---------------------------------------------------------------- parallel exploration

_G = {}


def _worker_init():
    ex = _G['ex']
    from .executor import SolverMgr
    ex.solver = SolverMgr(ex.opts.get('query_timeout_ms', 10000), xcheck=ex.opts.get('xcheck', 0))


def _run_prefix(task):
    idx, prefix = task
    ex = _G['ex']
    ex.stats = Stats()
    ex.violations = []
    ex.covers = set()
    ex.samples = []
    ex.worklist = []
    ex.split_depth = None
    ex.prefixes = []
    for f in ex.fns.values():
        f.ncalls = 0
    err = None
    t0 = time.time()
    try:
        ex.explore(_G['entry'], _G['args'], forced=prefix)
    except Inconclusive as e:
        err = ('inconclusive', str(e))
    except MachineryError as e:
        err = ('machinery', str(e))
    except RecursionError as e:
        err = ('machinery', 'recursion: ' + str(e))
    st = ex.stats
    st.fn_calls = {f.name: f.ncalls for f in ex.fns.values() if f.ncalls}
    return {'idx': idx, 'stats': st.__dict__, 'violations': [v.to_json() | {'lib_loc': _fmt_loc(v)} for v in ex.violations],
            'covers': sorted(ex.covers), 'samples': ex.samples, 'err': err, 'wall': time.time() - t0}


def _fmt_loc(v):
    l = getattr(v, 'lib_loc', None)
    fn = getattr(v, 'lib_fn', None)
    if l and l[0]:
        return '%s:%s(%s)' % (l[0].split('/')[-1], l[1], fn)
    return None


class Result:
    def __init__(self):
        self.stats = Stats()
        self.violations = []
        self.covers = set()
        self.samples = []
        self.errors = []
        self.prefixes = 0
        self.wall = 0.0
        self.libfns = {}

    def absorb(self, r):
        s = Stats()
        s.__dict__.update(r['stats'])
        self.stats.merge(s)
        self.violations += r['violations']
        self.covers |= set(r['covers'])
        if len(self.samples) < 6:
            self.samples += r['samples'][:2]
        if r['err']:
            self.errors.append(r['err'])


def explore_parallel(ll_path, entry='sx_main', args=(), opts=None, jobs=None, min_tasks=None, max_split=12,
                     budget_s=None):
    opts = dict(opts or {})
    opts.setdefault('lib_prefix', os.path.join(REPO, 'src') + '/')
    jobs = jobs or int(os.environ.get('IVSX_JOBS', '16'))
    t0 = time.time()
    mod = IR.parse_file(ll_path)
    ex = Executor(mod, opts)
    res = Result()
    res.libfns = {n: f for n, f in ex.fns.items() if f.islib and f.code is not None}
    _G['ex'] = ex
    _G['entry'] = entry
    _G['args'] = list(args)
    if budget_s:
        ex.deadline = t0 + budget_s
    if min_tasks is None:
        min_tasks = jobs * 6
    # phase A: grow a frontier of decision prefixes in the master until there are
    # enough independent tasks (re-executing a prefix needs no solver calls)
    def master_run(prefix):
        ex.stats = Stats()
        ex.violations = []
        ex.covers = set()
        ex.samples = []
        ex.worklist = []
        ex.prefixes = []
        ex.split_depth = 2
        for f in ex.fns.values():
            f.ncalls = 0
        err = None
        try:
            ex.explore(entry, list(args), forced=prefix)
        except Inconclusive as e:
            err = ('inconclusive', str(e))
        except MachineryError as e:
            err = ('machinery', str(e))
        st = ex.stats
        st.fn_calls = {f.name: f.ncalls for f in ex.fns.values() if f.ncalls}
        return {'idx': -1, 'stats': st.__dict__,
                'violations': [v.to_json() | {'lib_loc': _fmt_loc(v)} for v in ex.violations],
                'covers': sorted(ex.covers), 'samples': ex.samples, 'err': err, 'wall': 0}, ex.prefixes

    tasks = [None]
    failed = False
    rounds = 0
    while tasks and len(tasks) < min_tasks and rounds < max_split and jobs > 1 and not failed:
        rounds += 1
        new = []
        for p in tasks:
            r, pre = master_run(p)
            res.absorb(r)
            if r['err']:
                failed = True
                break
            new += pre
        tasks = new
    if jobs == 1 and tasks == [None]:
        r, pre = master_run(None)
        res.absorb(r)
        failed = bool(r['err'])
        tasks = pre
    res.prefixes = len(tasks)
    res.split_depth = rounds
    prefixes = [t for t in tasks if t is not None]
    if tasks == [None]:
        prefixes = []
        if not failed and rounds == 0:
            r, pre = master_run(None)
            res.absorb(r)
            prefixes = pre
            failed = bool(r['err'])
    if prefixes and not failed:
        if jobs == 1:
            for i, p in enumerate(prefixes):
                res.absorb(_run_prefix((i, p)))
        else:
            ctx = mp.get_context('fork')
            with ctx.Pool(jobs, initializer=_worker_init) as pool:
                for r in pool.imap_unordered(_run_prefix, list(enumerate(prefixes)), chunksize=1):
                    res.absorb(r)
    res.wall = time.time() - t0
    return res


def replay(ll_path, cex, entry='sx_main', args=(), opts=None):
    """concrete re-execution of a recorded counterexample; returns the violations it reproduces"""
    mod = IR.parse_file(ll_path)
    opts = dict(opts or {})
    opts.setdefault('lib_prefix', os.path.join(REPO, 'src') + '/')
    ex = Executor(mod, opts)
    vals = [(n, v) for n, v in cex['values']]
    try:
        ex.explore(entry, list(args), forced=[tuple(d) for d in cex['decisions']], replay_values=vals)
    except (Inconclusive, MachineryError) as e:
        return None, str(e)
    return [v.to_json() for v in ex.violations], None


def z3_version():
    import z3
    return z3.get_version_string()
