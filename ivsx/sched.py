"""Threads, scheduling points, blocking, quiescence, asynchronous delivery points
and the happens-before race monitor."""
import z3
from .core import *


class SyncReturn(Exception):
    def __init__(self, v):
        self.v = v


# ------------------------------------------------------------------ HB monitor

class HB:
    def __init__(self):
        self.vc = {0: {0: 1}}
        self.sync = {}
        self.shadow = {}
        self.final = {}
        self.whitelist = ()
        self.active = False
        self.checked = 0

    def clone(self):
        h = HB.__new__(HB)
        h.vc = {t: dict(v) for t, v in self.vc.items()}
        h.sync = dict(self.sync)
        h.shadow = dict(self.shadow)
        h.final = dict(self.final)
        h.whitelist = self.whitelist
        h.active = self.active
        h.checked = self.checked
        return h

    def rel(self, t, key):
        v = self.vc[t]
        old = self.sync.get(key)
        if old is None:
            self.sync[key] = dict(v)
        else:
            n = dict(old)
            for k, c in v.items():
                if n.get(k, 0) < c:
                    n[k] = c
            self.sync[key] = n
        v[t] = v.get(t, 0) + 1

    def acq(self, t, key):
        s = self.sync.get(key)
        if s is None:
            return
        v = self.vc[t]
        for k, c in s.items():
            if v.get(k, 0) < c:
                v[k] = c


class HBMonitor:
    """installed as ex.hbmon when a harness enables race detection"""

    def access(self, ex, o, off, n, write):
        st = ex.st
        hb = st.hb
        if hb is None or not hb.active:
            return
        kind = o.kind
        if kind == 'stack' or kind == 'func':
            return
        fr = ex.fr
        if fr is None or not fr.fn.islib:
            # only library code is subject to the race oracle; model/harness
            # accesses to their own ghost state are serialised by construction
            if not ex.hb_all:
                return
        t = st.cur
        v = hb.vc[t]
        clk = v[t]
        sh = hb.shadow
        oid = o.id
        where = (fr.fn, fr.pc - 1)
        hb.checked += 1
        # granularity: aligned 4-byte units (two adjacent ints are different memory locations; fields narrower
        # than that sharing a unit are conservatively treated as one location)
        for w in range(off >> 2, (off + n + 3) >> 2):
            key = (oid, w)
            e = sh.get(key)
            if e is None:
                if write:
                    sh[key] = (t, clk, where, ())
                else:
                    sh[key] = (-1, 0, None, ((t, clk, where),))
                continue
            wt, wc, wloc, reads = e
            if wt >= 0 and wt != t and v.get(wt, 0) < wc:
                self.report(ex, o, w, write, where, True, wt, wloc)
            if write:
                for rt, rc, rloc in reads:
                    if rt != t and v.get(rt, 0) < rc:
                        self.report(ex, o, w, write, where, False, rt, rloc)
                sh[key] = (t, clk, where, ())
            else:
                nr = tuple(r for r in reads if r[0] != t) + ((t, clk, where),)
                sh[key] = (wt, wc, wloc, nr)

    def report(self, ex, o, w, write, where, other_write, ot, oloc):
        name = str(o.site)
        if o.kind == 'global' and name in ex.st.hb.whitelist:
            return

        def fmt(wh):
            if wh is None:
                return '?'
            fn, pc = wh
            dbg = fn.dbg[pc] if 0 <= pc < len(fn.dbg) else None
            loc = ex.mod.loc(dbg) if dbg else None
            return '%s (%s:%s)' % (fn.name, loc[0].split('/')[-1] if loc and loc[0] else '?', loc[1] if loc else '?')
        if ex.opts.get('hbdebug'):
            import sys
            sys.stderr.write('HBDEBUG cur=%d vc=%r other=%d shadow=%r\n' % (ex.st.cur, ex.st.hb.vc, ot, [(k, (v[0], v[1], [(r[0], r[1]) for r in v[3]])) for k, v in ex.st.hb.shadow.items() if k[0] == o.id and k[1] == w]))
        ex.violation('race', 'data-race',
                     'unsynchronised %s by thread %d at %s conflicts with %s by thread %d at %s on %s object %s 4-byte unit %d'
                     % ('write' if write else 'read', ex.st.cur, fmt(where),
                        'write' if other_write else 'read', ot, fmt(oloc), o.kind, name, w))


# ------------------------------------------------------------------ scheduling

def switch_to(ex, tid):
    st = ex.st
    st.cur = tid
    th = st.threads[tid]
    ex.th = th
    ex.fr = th.frames[-1]
    return True


def call_sync(ex, fnaddr, args):
    """run a (pure, concrete) model function to completion and return its value"""
    fn = ex.fn_by_addr.get(fnaddr)
    if fn is None or fn.code is None:
        raise MachineryError('call_sync: not a function')
    saved = (ex.th, ex.fr, ex.nofork)
    scratch = Thread(-1)
    ex.th = scratch
    ex.nofork = True
    ex.push_call(fn, list(args), 0)
    try:
        ex.run()
    except SyncReturn as r:
        v = r.v
    finally:
        ex.th, ex.fr, ex.nofork = saved
    return v


def pred_true(ex, th):
    fnaddr, arg, deadline, dest = th.pred
    st = ex.st
    saved = st.cur
    st.cur = th.tid          # sx_tid() inside the predicate names the waiting thread
    try:
        v = call_sync(ex, fnaddr, [arg])
    finally:
        st.cur = saved
    if type(v) is not int:
        raise MachineryError('blocking predicate returned a symbolic value')
    return (v & 0xffffffff) != 0


def enabled_threads(ex):
    st = ex.st
    out = []
    for t in st.threads:
        if t.status == 'run':
            out.append(t.tid)
        elif t.status == 'blocked' and pred_true(ex, t):
            out.append(t.tid)
    return out


def wake(ex, th, result):
    fnaddr, arg, deadline, dest = th.pred
    th.status = 'run'
    th.pred = None
    th.frames[-1].regs[dest] = result


def schedule(ex, current_runnable):
    """pick the next thread to run.  Returns True iff the frame changed."""
    st = ex.st
    cur = st.cur
    en = enabled_threads(ex)
    if current_runnable:
        others = [t for t in en if t != cur]
        if not others or st.preempt >= ex.max_preempt:
            return None
        opts = [cur] + others
    else:
        opts = en
    if not opts:
        return quiescence(ex)

    def apply(s, k):
        tid = opts[k]
        if tid == s.cur and current_runnable:
            return
        if current_runnable:
            s.preempt += 1
        th = s.threads[tid]
        if th.status == 'blocked':
            fnaddr, arg, deadline, dest = th.pred
            th.status = 'run'
            th.pred = None
            th.frames[-1].regs[dest] = 1
        s.cur = tid
        if ex.trace_on:
            s.trace.append('switch->T%d' % tid)
    ex.choose_direct(len(opts), 's', apply)
    ex.activate(ex.st)
    return True


def quiescence(ex):
    """no thread can run: fire the earliest timed wait, or declare quiescence"""
    st = ex.st
    timed = [t for t in st.threads if t.status == 'blocked' and t.pred[2] >= 0]
    if timed:
        # virtual time jumps to the earliest deadline; every wait that expires at that
        # instant becomes runnable (their relative order is a scheduling choice)
        dl = min(t.pred[2] for t in timed)
        due = [t for t in timed if t.pred[2] == dl]
        for th in due:
            if ex.trace_on:
                st.trace.append('timeout->T%d' % th.tid)
            wake(ex, th, 0)
        if len(due) > 1:
            st.covers.add('sched:simultaneous-timeouts')
            tids = [t.tid for t in due]

            def apply(s, k):
                s.cur = tids[k]
            ex.choose_direct(len(tids), 's', apply)
            ex.activate(ex.st)
            return True
        return switch_to(ex, due[0].tid)
    # true quiescence: run the harness's quiescence oracle on thread 0's context
    qf = ex.fns.get('sx_on_quiescent')
    st.covers.add('sched:quiescent')
    if qf is not None and qf.code is not None:
        th = Thread(len(st.threads))
        st.threads.append(th)
        st.cur = th.tid
        ex.th = th
        if st.hb is not None:
            # the oracle reads everything: order it after everyone
            v = {}
            for vc in st.hb.vc.values():
                for k, c in vc.items():
                    if v.get(k, 0) < c:
                        v[k] = c
            v[th.tid] = 1
            st.hb.vc[th.tid] = v
            st.hb.active = False

        def done(ex, v):
            raise PathEnd('ok')
        return ex.push_call(qf, [], 0, done)
    blocked = [(t.tid, t.frames[-1].fn.name if t.frames else '-') for t in st.threads if t.status == 'blocked']
    ex.violation('deadlock', 'deadlock', 'all threads blocked: %s' % blocked)


def thread_finished(ex, th, v):
    if th.tid == -1:
        raise SyncReturn(v)
    st = ex.st
    th.status = 'done'
    th.retval = v
    if st.hb is not None:
        st.hb.final[th.tid] = dict(st.hb.vc[th.tid])
    if th.tid == 0:
        raise PathEnd('ok')
    if ex.trace_on:
        st.trace.append('T%d done' % th.tid)
    r = schedule(ex, False)
    return r if r else True


def async_point(ex, fr):
    """called before an instruction of a fine-grained function while the
    model's async-pending flag is set: fork deliver-now / later"""
    st = ex.st
    if ex.nofork:
        return None
    k = ex.choose(2, 'a')
    if k == 0:
        return None
    fn = ex.fns['sxm_async_deliver']
    fr.pc -= 1          # re-execute the interrupted instruction afterwards
    st.covers.add('async:delivered-in-' + fr.fn.name)
    return ex.push_call(fn, [], fr.fn.scratch)


def install(ex, reg):
    ex.nofork = False
    ex.hb_all = False

    def conc(ex, v, bits=64):
        return v if type(v) is int else ex.concretize(v, bits)

    @reg('sx_thread_create')
    def _create(ex, fr, a, d):
        st = ex.st
        fn = ex.fn_by_addr.get(a[0])
        if fn is None or fn.code is None:
            ex.violation('mem', 'bad-call', 'thread start routine is not a function')
        th = Thread(len(st.threads))
        st.threads.append(th)
        saved = (ex.th, ex.fr)
        ex.th = th
        ex.push_call(fn, [a[1]], 0)
        ex.th, ex.fr = saved
        if st.hb is not None:
            hb = st.hb
            v = dict(hb.vc[st.cur])
            v[th.tid] = 1
            hb.vc[th.tid] = v
            hb.vc[st.cur][st.cur] += 1
            hb.active = True
        fr.regs[d] = th.tid

    @reg('sx_tid')
    def _tid(ex, fr, a, d):
        fr.regs[d] = ex.st.cur

    @reg('sx_nthreads')
    def _nthreads(ex, fr, a, d):
        fr.regs[d] = sum(1 for t in ex.st.threads if t.status != 'done')

    @reg('sx_sched')
    def _sched(ex, fr, a, d):
        st = ex.st
        if len(st.threads) == 1 or ex.nofork:
            return None
        return schedule(ex, True)

    @reg('sx_block_until')
    def _block(ex, fr, a, d):
        """sx_block_until(pred, arg, deadline): 1 when pred holds, 0 on timeout"""
        st = ex.st
        th = ex.th
        deadline = sgn(conc(ex, a[2]), 64)
        th.pred = (a[0], a[1], deadline, d)
        if pred_true(ex, th):
            th.pred = None
            fr.regs[d] = 1
            return None
        th.status = 'blocked'
        if ex.trace_on:
            st.trace.append('T%d blocks' % th.tid)
        r = schedule(ex, False)
        return r if r else True

    @reg('sx_thread_done')
    def _tdone(ex, fr, a, d):
        t = ex.st.threads[conc(ex, a[0], 32)]
        fr.regs[d] = 1 if t.status == 'done' else 0

    @reg('sx_thread_retval')
    def _tret(ex, fr, a, d):
        t = ex.st.threads[conc(ex, a[0], 32)]
        fr.regs[d] = t.retval

    @reg('sx_thread_exit')
    def _texit(ex, fr, a, d):
        th = ex.th
        objs = ex.st.objs
        for f in th.frames:
            if f.allocas:
                for oid in f.allocas:
                    objs[oid] = DEAD_STACK_T
        th.frames = []
        return thread_finished(ex, th, a[0])

    @reg('sx_hb_enable')
    def _hb_enable(ex, fr, a, d):
        st = ex.st
        if st.hb is None:
            st.hb = HB()
            st.hb.whitelist = tuple(ex.opts.get('race_whitelist', ()))
        if ex.hbmon is None:
            ex.hbmon = HBMonitor()

    @reg('sx_hb_rel')
    def _hb_rel(ex, fr, a, d):
        st = ex.st
        if st.hb is not None and ex.opts.get('hbdebug') == 2:
            st.trace.append('hb:rel T%d key=%x clk=%r' % (st.cur, a[0], st.hb.vc[st.cur]))
        if st.hb is not None:
            st.hb.rel(st.cur, a[0])

    @reg('sx_hb_acq')
    def _hb_acq(ex, fr, a, d):
        st = ex.st
        if st.hb is not None and ex.opts.get('hbdebug') == 2:
            st.trace.append('hb:acq T%d key=%x sync=%r' % (st.cur, a[0], st.hb.sync.get(a[0])))
        if st.hb is not None:
            st.hb.acq(st.cur, a[0])

    @reg('sx_hb_join')
    def _hb_join(ex, fr, a, d):
        st = ex.st
        if st.hb is not None:
            tid = conc(ex, a[0], 32)
            fin = st.hb.final.get(tid)
            if fin is not None:
                v = st.hb.vc[st.cur]
                for k, c in fin.items():
                    if v.get(k, 0) < c:
                        v[k] = c

    @reg('sx_kill_other_threads')
    def _kill_others(ex, fr, a, d):
        st = ex.st
        for t in st.threads:
            if t.tid != st.cur and t.status != 'done':
                t.status = 'done'
                t.frames = []
                t.pred = None
        # the child process after fork(): only the calling thread exists, and everything any thread of the
        # parent did before the fork happened before whatever the child does (race monitor: join all clocks)
        hb = st.hb
        if hb is not None:
            mine = hb.vc.get(st.cur)
            if mine is not None:
                for ot, v in hb.vc.items():
                    for k, c in v.items():
                        if mine.get(k, 0) < c:
                            mine[k] = c

    @reg('sx_async_flag')
    def _async_flag(ex, fr, a, d):
        ex.async_flag_addr = a[0]


DEAD_STACK_T = Obj(0, 0, 'dead-stack', 'exited thread')
DEAD_STACK_T.alive = False
