"""Exact translation of QF_BV terms into linear integer arithmetic (the
"solve-bv-as-int" encoding): every bit-vector term t of width k becomes an
integer term u(t) with 0 <= u(t) < 2^k equal to its unsigned value, keeping
the mod-2^k wrap-around.  Terms the encoding cannot express linearly
(bitwise ops on two unknowns, variable shifts, non-constant multiplication)
raise Unsupported, and the caller falls back to bit-blasting."""
import z3


class Unsupported(Exception):
    pass


I = z3.IntVal


class Translator:
    def __init__(self):
        self.cache = {}        # ast id -> (translated, original kept alive)
        self.vars = {}         # bv var id -> (int var, bv var, bits)
        self.side = {}         # int var id -> range constraint
        self.aux = 0

    def var(self, x):
        k = x.get_id()
        e = self.vars.get(k)
        if e is None:
            bits = x.size()
            iv = z3.Int('i!' + x.decl().name())
            e = self.vars[k] = (iv, x, bits)
            self.side[iv.get_id()] = z3.And(iv >= 0, iv < (1 << bits))
        return e[0]

    def t(self, e):
        k = e.get_id()
        c = self.cache.get(k)
        if c is not None:
            return c[0]
        r = self._t(e)
        self.cache[k] = (r, e)
        return r

    @staticmethod
    def signed(a, bits):
        return z3.If(a >= (1 << (bits - 1)), a - (1 << bits), a)

    @staticmethod
    def wrap_s(s, bits):
        """signed integer in [-2^(k-1), 2^(k-1)) -> unsigned"""
        return z3.If(s < 0, s + (1 << bits), s)

    def _t(self, e):
        if z3.is_bool(e):
            return self._tb(e)
        if not z3.is_bv(e):
            raise Unsupported('sort')
        bits = e.size()
        M = 1 << bits
        if z3.is_bv_value(e):
            return I(e.as_long())
        k = e.decl().kind()
        ch = e.children()
        if k == z3.Z3_OP_UNINTERPRETED and not ch:
            return self.var(e)
        if k == z3.Z3_OP_BADD:
            s = self.t(ch[0])
            for c in ch[1:]:
                s = s + self.t(c)
            if len(ch) == 2:
                return z3.If(s >= M, s - M, s)
            return s % M
        if k == z3.Z3_OP_BSUB:
            d = self.t(ch[0])
            for c in ch[1:]:
                d = d - self.t(c)
            if len(ch) == 2:
                return z3.If(d < 0, d + M, d)
            return d % M
        if k == z3.Z3_OP_BNEG:
            a = self.t(ch[0])
            return z3.If(a == 0, a, M - a)
        if k == z3.Z3_OP_BMUL:
            consts = [c for c in ch if z3.is_bv_value(c)]
            others = [c for c in ch if not z3.is_bv_value(c)]
            if len(others) > 1:
                raise Unsupported('nonlinear mul')
            cv = 1
            for c in consts:
                cv = (cv * c.as_long()) % M
            if not others:
                return I(cv)
            # signed small constants: multiply by the signed value to keep numbers small
            if cv >= M // 2:
                return (-(M - cv) * self.t(others[0])) % M
            return (cv * self.t(others[0])) % M
        if k in (z3.Z3_OP_BUDIV, z3.Z3_OP_BUDIV_I, z3.Z3_OP_BUREM, z3.Z3_OP_BUREM_I):
            if not z3.is_bv_value(ch[1]) or ch[1].as_long() == 0:
                raise Unsupported('div by non-constant')
            a = self.t(ch[0])
            c = ch[1].as_long()
            return a / c if k in (z3.Z3_OP_BUDIV, z3.Z3_OP_BUDIV_I) else a % c
        if k in (z3.Z3_OP_BSDIV, z3.Z3_OP_BSDIV_I, z3.Z3_OP_BSREM, z3.Z3_OP_BSREM_I):
            if not z3.is_bv_value(ch[1]):
                raise Unsupported('sdiv by non-constant')
            c = ch[1].as_long()
            if c == 0 or c >= M // 2:
                raise Unsupported('sdiv by non-positive constant')
            sa = self.signed(self.t(ch[0]), bits)
            q = z3.If(sa >= 0, sa / c, -((-sa) / c))
            if k in (z3.Z3_OP_BSDIV, z3.Z3_OP_BSDIV_I):
                return self.wrap_s(q, bits)
            return self.wrap_s(sa - q * c, bits)
        if k == z3.Z3_OP_ITE:
            return z3.If(self.t(ch[0]), self.t(ch[1]), self.t(ch[2]))
        if k == z3.Z3_OP_ZERO_EXT:
            return self.t(ch[0])
        if k == z3.Z3_OP_SIGN_EXT:
            a = self.t(ch[0])
            fb = ch[0].size()
            return z3.If(a >= (1 << (fb - 1)), a + (M - (1 << fb)), a)
        if k == z3.Z3_OP_EXTRACT:
            hi, lo = e.params()
            a = self.t(ch[0])
            if lo > 0:
                a = a / (1 << lo)
            if hi == ch[0].size() - 1:
                return a
            return a % (1 << (hi - lo + 1))
        if k == z3.Z3_OP_CONCAT:
            r = self.t(ch[0])
            for c in ch[1:]:
                r = r * (1 << c.size()) + self.t(c)
            return r
        if k == z3.Z3_OP_BNOT:
            return (M - 1) - self.t(ch[0])
        if k == z3.Z3_OP_BAND and len(ch) == 2:
            cs = [c for c in ch if z3.is_bv_value(c)]
            os_ = [c for c in ch if not z3.is_bv_value(c)]
            if len(cs) == 1 and len(os_) == 1:
                m = cs[0].as_long()
                if m & (m + 1) == 0:          # low mask 2^j-1
                    return self.t(os_[0]) % (m + 1)
                # high mask: clear the low j bits
                inv = (M - 1) ^ m
                if inv & (inv + 1) == 0:
                    a = self.t(os_[0])
                    return a - a % (inv + 1)
            raise Unsupported('bvand')
        if k == z3.Z3_OP_BSHL and z3.is_bv_value(ch[1]):
            c = ch[1].as_long()
            if c >= bits:
                return I(0)
            return (self.t(ch[0]) * (1 << c)) % M
        if k == z3.Z3_OP_BLSHR and z3.is_bv_value(ch[1]):
            c = ch[1].as_long()
            if c >= bits:
                return I(0)
            return self.t(ch[0]) / (1 << c)
        if k == z3.Z3_OP_BASHR and z3.is_bv_value(ch[1]):
            c = ch[1].as_long()
            if c >= bits:
                c = bits - 1
            sa = self.signed(self.t(ch[0]), bits)
            # floor division of the signed value
            return self.wrap_s(sa / (1 << c), bits)
        raise Unsupported('bv op %s' % e.decl().name())

    def _tb(self, e):
        k = e.decl().kind()
        ch = e.children()
        if k == z3.Z3_OP_TRUE or k == z3.Z3_OP_FALSE:
            return e
        if k == z3.Z3_OP_NOT:
            return z3.Not(self.t(ch[0]))
        if k == z3.Z3_OP_AND:
            return z3.And(*[self.t(c) for c in ch])
        if k == z3.Z3_OP_OR:
            return z3.Or(*[self.t(c) for c in ch])
        if k == z3.Z3_OP_XOR:
            return z3.Xor(self.t(ch[0]), self.t(ch[1]))
        if k == z3.Z3_OP_IMPLIES:
            return z3.Implies(self.t(ch[0]), self.t(ch[1]))
        if k == z3.Z3_OP_ITE:
            return z3.If(self.t(ch[0]), self.t(ch[1]), self.t(ch[2]))
        if k == z3.Z3_OP_EQ or k == z3.Z3_OP_IFF:
            return self.t(ch[0]) == self.t(ch[1])
        if k == z3.Z3_OP_DISTINCT:
            return z3.Distinct(*[self.t(c) for c in ch])
        if k == z3.Z3_OP_ULEQ:
            return self.t(ch[0]) <= self.t(ch[1])
        if k == z3.Z3_OP_ULT:
            return self.t(ch[0]) < self.t(ch[1])
        if k == z3.Z3_OP_UGEQ:
            return self.t(ch[0]) >= self.t(ch[1])
        if k == z3.Z3_OP_UGT:
            return self.t(ch[0]) > self.t(ch[1])
        if k in (z3.Z3_OP_SLEQ, z3.Z3_OP_SLT, z3.Z3_OP_SGEQ, z3.Z3_OP_SGT):
            b = ch[0].size()
            x = self.signed(self.t(ch[0]), b)
            y = self.signed(self.t(ch[1]), b)
            if k == z3.Z3_OP_SLEQ:
                return x <= y
            if k == z3.Z3_OP_SLT:
                return x < y
            if k == z3.Z3_OP_SGEQ:
                return x >= y
            return x > y
        if k == z3.Z3_OP_UNINTERPRETED and not ch:
            return e
        raise Unsupported('bool op %s' % e.decl().name())

    def vars_of(self, e, acc, seen):
        """collect BV variables of e (ids) into acc"""
        k = e.get_id()
        if k in seen:
            return
        seen.add(k)
        if z3.is_bv(e) and e.decl().kind() == z3.Z3_OP_UNINTERPRETED and e.num_args() == 0:
            acc.add(k)
            return
        for c in e.children():
            self.vars_of(c, acc, seen)
