"""Exact translation of QF_BV terms into integer arithmetic (the
"solve-bv-as-int" idea), with signed semantics and interval analysis.

Every bit-vector term t of width k becomes an integer term S(t) equal to its
two's-complement signed value, together with sound integer bounds [lo, hi].
Operations are first computed exactly over the integers; the mod-2^k wrap-around
is applied only when the bounds do not exclude overflow, so that arithmetic on
quantities with declared small ranges (times, counters) stays purely linear.
Terms that the encoding cannot express linearly (bitwise operations on two
unknowns, variable shifts, non-constant multiplication) raise Unsupported and
the caller falls back to bit-blasting."""
import z3


class Unsupported(Exception):
    pass


I = z3.IntVal



def is_sext_idiom(e):
    """z3.simplify writes sign_extend(x) as concat(x[w-1], ..., x[w-1], x)"""
    ch = e.children()
    x = ch[-1]
    w = x.size()
    ids = {x.get_id()}
    if x.decl().kind() == z3.Z3_OP_EXTRACT:
        hi, lo = x.params()
        if lo == 0 and hi == w - 1:
            ids.add(x.arg(0).get_id())      # (x[w-1:0])[w-1] is simplified to x[w-1]
    for c in ch[:-1]:
        if c.decl().kind() != z3.Z3_OP_EXTRACT:
            return False
        hi, lo = c.params()
        if hi != w - 1 or lo != w - 1 or c.arg(0).get_id() not in ids:
            return False
    return True


class Translator:
    def __init__(self):
        self.cache = {}        # ast id -> ((term, lo, hi), original kept alive)
        self.bcache = {}
        self.vars = {}         # bv var id -> (int var, bv var, bits)
        self.side = {}         # int var id -> range constraint

    # ------------------------------------------------------------------
    def var(self, x):
        k = x.get_id()
        e = self.vars.get(k)
        bits = x.size()
        if e is None:
            iv = z3.Int('i!' + x.decl().name())
            lo, hi = -(1 << (bits - 1)), (1 << (bits - 1)) - 1
            nm = x.decl().name()
            at = nm.rfind('@')
            if at >= 0:
                # declared signed range, part of the unknown's name: name#idx@lo:hi
                try:
                    a, b = nm[at + 1:].split(':')
                    lo, hi = max(lo, int(a)), min(hi, int(b))
                except ValueError:
                    pass
            e = self.vars[k] = (iv, x, bits, lo, hi)
            self.side[iv.get_id()] = z3.And(iv >= lo, iv <= hi)
        return e[0], e[3], e[4]

    @staticmethod
    def fits(lo, hi, bits):
        return lo >= -(1 << (bits - 1)) and hi <= (1 << (bits - 1)) - 1

    @staticmethod
    def wrap(t, lo, hi, bits):
        """reduce an exact integer to the signed k-bit value"""
        if Translator.fits(lo, hi, bits):
            return t, lo, hi
        H = 1 << (bits - 1)
        M = 1 << bits
        # one conditional subtraction / addition suffices when within one period
        if lo >= -H and hi < H + M:
            return z3.If(t >= H, t - M, t), -H, H - 1
        if lo >= -H - M and hi < H:
            return z3.If(t < -H, t + M, t), -H, H - 1
        return ((t + H) % M) - H, -H, H - 1

    @staticmethod
    def unsigned(t, lo, hi, bits):
        """signed value -> unsigned value with bounds"""
        M = 1 << bits
        if lo >= 0:
            return t, lo, hi
        if hi < 0:
            return t + M, lo + M, hi + M
        return z3.If(t < 0, t + M, t), 0, M - 1

    def from_unsigned(self, t, lo, hi, bits):
        """unsigned value in [0,2^k) -> signed"""
        H = 1 << (bits - 1)
        M = 1 << bits
        if hi < H:
            return t, lo, hi
        if lo >= H:
            return t - M, lo - M, hi - M
        return z3.If(t >= H, t - M, t), -H, H - 1

    # ------------------------------------------------------------------
    def tv(self, e):
        """bit-vector term -> (int term, lo, hi)"""
        k = e.get_id()
        c = self.cache.get(k)
        if c is not None:
            return c[0]
        r = self._tv(e)
        self.cache[k] = (r, e)
        return r

    def t(self, e):
        """Bool term -> Bool term over integers"""
        k = e.get_id()
        c = self.bcache.get(k)
        if c is not None:
            return c[0]
        r = self._tb(e)
        self.bcache[k] = (r, e)
        return r

    def _tv(self, e):
        if not z3.is_bv(e):
            raise Unsupported('sort')
        bits = e.size()
        H = 1 << (bits - 1)
        M = 1 << bits
        if z3.is_bv_value(e):
            v = e.as_long()
            if v >= H:
                v -= M
            return I(v), v, v
        k = e.decl().kind()
        ch = e.children()
        if k == z3.Z3_OP_UNINTERPRETED and not ch:
            return self.var(e)
        if k == z3.Z3_OP_BADD:
            t, lo, hi = self.tv(ch[0])
            for c in ch[1:]:
                t2, l2, h2 = self.tv(c)
                t = t + t2
                lo += l2
                hi += h2
            return self.wrap(t, lo, hi, bits)
        if k == z3.Z3_OP_BSUB:
            t, lo, hi = self.tv(ch[0])
            for c in ch[1:]:
                t2, l2, h2 = self.tv(c)
                t = t - t2
                lo -= h2
                hi -= l2
            return self.wrap(t, lo, hi, bits)
        if k == z3.Z3_OP_BNEG:
            t, lo, hi = self.tv(ch[0])
            return self.wrap(-t, -hi, -lo, bits)
        if k == z3.Z3_OP_BMUL:
            consts = [c for c in ch if z3.is_bv_value(c)]
            others = [c for c in ch if not z3.is_bv_value(c)]
            if len(others) > 1:
                raise Unsupported('nonlinear mul')
            cv = 1
            for c in consts:
                cv = (cv * c.as_long()) % M
            if cv >= H:
                cv -= M
            if not others:
                return I(cv), cv, cv
            t, lo, hi = self.tv(others[0])
            a, b = cv * lo, cv * hi
            return self.wrap(cv * t, min(a, b), max(a, b), bits)
        if k in (z3.Z3_OP_BUDIV, z3.Z3_OP_BUDIV_I, z3.Z3_OP_BUREM, z3.Z3_OP_BUREM_I):
            if not z3.is_bv_value(ch[1]) or ch[1].as_long() == 0:
                raise Unsupported('div by non-constant')
            c = ch[1].as_long()
            t, lo, hi = self.unsigned(*self.tv(ch[0]), bits)
            if k in (z3.Z3_OP_BUDIV, z3.Z3_OP_BUDIV_I):
                return self.from_unsigned(t / c, lo // c, hi // c, bits)
            return self.from_unsigned(t % c, 0, min(hi, c - 1), bits)
        if k in (z3.Z3_OP_BSDIV, z3.Z3_OP_BSDIV_I, z3.Z3_OP_BSREM, z3.Z3_OP_BSREM_I):
            if not z3.is_bv_value(ch[1]):
                raise Unsupported('sdiv by non-constant')
            c = ch[1].as_long()
            if c == 0 or c >= H:
                raise Unsupported('sdiv by non-positive constant')
            t, lo, hi = self.tv(ch[0])
            if lo >= 0:
                q = t / c
            elif hi < 0:
                q = -((-t) / c)
            else:
                q = z3.If(t >= 0, t / c, -((-t) / c))
            ql, qh = -((-lo) // c) if lo < 0 else lo // c, -((-hi) // c) if hi < 0 else hi // c
            if k in (z3.Z3_OP_BSDIV, z3.Z3_OP_BSDIV_I):
                return q, ql, qh
            rl = -(c - 1) if lo < 0 else 0
            rh = (c - 1) if hi > 0 else 0
            return t - q * c, rl, rh
        if k == z3.Z3_OP_ITE:
            c = self.t(ch[0])
            a, la, ha = self.tv(ch[1])
            b, lb, hb = self.tv(ch[2])
            return z3.If(c, a, b), min(la, lb), max(ha, hb)
        if k == z3.Z3_OP_ZERO_EXT:
            fb = ch[0].size()
            return self.unsigned(*self.tv(ch[0]), fb)
        if k == z3.Z3_OP_SIGN_EXT:
            return self.tv(ch[0])
        if k == z3.Z3_OP_EXTRACT:
            hi_, lo_ = e.params()
            t, lo, hi = self.tv(ch[0])
            fb = ch[0].size()
            if lo_ == 0:
                if hi_ == fb - 1:
                    return t, lo, hi
                return self.wrap(t, lo, hi, bits)
            ut, ulo, uhi = self.unsigned(t, lo, hi, fb)
            ut = ut / (1 << lo_)
            ulo, uhi = ulo >> lo_, uhi >> lo_
            if uhi >= M:
                ut = ut % M
                ulo, uhi = 0, M - 1
            return self.from_unsigned(ut, ulo, uhi, bits)
        if k == z3.Z3_OP_CONCAT and is_sext_idiom(e):
            return self.tv(ch[-1])
        if k == z3.Z3_OP_CONCAT:
            ut, ulo, uhi = self.unsigned(*self.tv(ch[0]), ch[0].size())
            for c in ch[1:]:
                cb = c.size()
                ct, clo, chi = self.unsigned(*self.tv(c), cb)
                ut = ut * (1 << cb) + ct
                ulo = ulo * (1 << cb) + clo
                uhi = uhi * (1 << cb) + chi
            return self.from_unsigned(ut, ulo, uhi, bits)
        if k == z3.Z3_OP_BNOT:
            t, lo, hi = self.tv(ch[0])
            return -t - 1, -hi - 1, -lo - 1
        if k == z3.Z3_OP_BAND and len(ch) == 2:
            cs = [c for c in ch if z3.is_bv_value(c)]
            os_ = [c for c in ch if not z3.is_bv_value(c)]
            if len(cs) == 1 and len(os_) == 1:
                m = cs[0].as_long()
                if m & (m + 1) == 0:          # low mask 2^j-1
                    ut, ulo, uhi = self.unsigned(*self.tv(os_[0]), bits)
                    if uhi <= m:
                        return self.from_unsigned(ut, ulo, uhi, bits)
                    return self.from_unsigned(ut % (m + 1), 0, m, bits)
            raise Unsupported('bvand')
        if k == z3.Z3_OP_BSHL and z3.is_bv_value(ch[1]):
            c = ch[1].as_long()
            if c >= bits:
                return I(0), 0, 0
            t, lo, hi = self.tv(ch[0])
            return self.wrap(t * (1 << c), lo << c, hi << c, bits)
        if k == z3.Z3_OP_BLSHR and z3.is_bv_value(ch[1]):
            c = ch[1].as_long()
            if c >= bits:
                return I(0), 0, 0
            ut, ulo, uhi = self.unsigned(*self.tv(ch[0]), bits)
            return self.from_unsigned(ut / (1 << c), ulo >> c, uhi >> c, bits)
        if k == z3.Z3_OP_BASHR and z3.is_bv_value(ch[1]):
            c = ch[1].as_long()
            if c >= bits:
                c = bits - 1
            t, lo, hi = self.tv(ch[0])
            return t / (1 << c), lo >> c, hi >> c        # floor division
        raise Unsupported('bv op %s' % e.decl().name())

    def _tb(self, e):
        k = e.decl().kind()
        ch = e.children()
        if k == z3.Z3_OP_TRUE or k == z3.Z3_OP_FALSE:
            return e
        if k == z3.Z3_OP_NOT:
            return z3.Not(self.t(ch[0]))
        if k == z3.Z3_OP_AND:
            return z3.And(*[self.t(c) for c in ch])
        if k == z3.Z3_OP_OR:
            return z3.Or(*[self.t(c) for c in ch])
        if k == z3.Z3_OP_XOR:
            return z3.Xor(self.t(ch[0]), self.t(ch[1]))
        if k == z3.Z3_OP_IMPLIES:
            return z3.Implies(self.t(ch[0]), self.t(ch[1]))
        if k == z3.Z3_OP_ITE:
            return z3.If(self.t(ch[0]), self.t(ch[1]), self.t(ch[2]))
        if k == z3.Z3_OP_EQ or k == z3.Z3_OP_IFF:
            if z3.is_bool(ch[0]):
                return self.t(ch[0]) == self.t(ch[1])
            a, la, ha = self.tv(ch[0])
            b, lb, hb = self.tv(ch[1])
            if ha < lb or hb < la:
                return z3.BoolVal(False)
            return a == b
        if k == z3.Z3_OP_DISTINCT:
            return z3.Distinct(*[self.tv(c)[0] for c in ch])
        if k in (z3.Z3_OP_ULEQ, z3.Z3_OP_ULT, z3.Z3_OP_UGEQ, z3.Z3_OP_UGT):
            b = ch[0].size()
            x = self.unsigned(*self.tv(ch[0]), b)[0]
            y = self.unsigned(*self.tv(ch[1]), b)[0]
            if k == z3.Z3_OP_ULEQ:
                return x <= y
            if k == z3.Z3_OP_ULT:
                return x < y
            if k == z3.Z3_OP_UGEQ:
                return x >= y
            return x > y
        if k in (z3.Z3_OP_SLEQ, z3.Z3_OP_SLT, z3.Z3_OP_SGEQ, z3.Z3_OP_SGT):
            x = self.tv(ch[0])[0]
            y = self.tv(ch[1])[0]
            if k == z3.Z3_OP_SLEQ:
                return x <= y
            if k == z3.Z3_OP_SLT:
                return x < y
            if k == z3.Z3_OP_SGEQ:
                return x >= y
            return x > y
        if k == z3.Z3_OP_UNINTERPRETED and not ch:
            return e
        raise Unsupported('bool op %s' % e.decl().name())
