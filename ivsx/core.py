"""ivsx core: forking symbolic executor for the LLVM IR subset parsed by ir.py.

Values:   python int (concrete, unsigned, masked to the IR width)
          z3 BitVecRef (symbolic, width = IR width), z3 BoolRef for symbolic i1
          UNDEF (uninitialised)
Pointers: plain 64-bit ints  (object id << 32) | offset.  Object ids are never
          reused, so a dangling pointer keeps naming the dead object.
Memory:   per object a sparse dict  offset -> (nbytes, value)  with a fill byte.
Forking:  copy-on-write clone of the state; the clone re-executes the forking
          instruction with a pending decision.
"""
import sys
import time
import z3
from collections import deque
from . import ir as IR

M64 = (1 << 64) - 1
OBJ_SHIFT = 32
OFF_MASK = (1 << 32) - 1


class Undef:
    __slots__ = ()

    def __repr__(self):
        return 'UNDEF'


UNDEF = Undef()
BVRef = z3.BitVecRef
BoolRef = z3.BoolRef


# --------------------------------------------------------------------- errors

class PathEnd(Exception):
    """Current path is finished (normally, by assumption, or by violation)."""

    def __init__(self, kind, msg=''):
        self.kind = kind
        self.msg = msg


class Inconclusive(Exception):
    pass


class MachineryError(Exception):
    pass


class Violation:
    def __init__(self, kind, oid, msg, loc, stack, decisions, values, trace, covers):
        self.kind = kind          # 'assert', 'mem', 'abort', 'deadlock', 'race', ...
        self.oid = oid            # oracle id / monitor id
        self.msg = msg
        self.loc = loc            # (file, line)
        self.stack = stack        # function names
        self.decisions = decisions
        self.values = values      # list of (name, value)
        self.trace = trace
        self.covers = covers

    def fingerprint(self):
        f = self.loc[0] if self.loc else None
        if f:
            f = f.split('/')[-1]
        return '%s|%s|%s' % (self.oid, f, self.stack[-1] if self.stack else '')

    def to_json(self):
        return {'kind': self.kind, 'oracle': self.oid, 'msg': self.msg,
                'loc': '%s:%s' % self.loc if self.loc else None, 'stack': self.stack,
                'decisions': self.decisions, 'values': self.values,
                'trace': self.trace[-80:], 'fingerprint': self.fingerprint()}


# --------------------------------------------------------------------- memory

class Obj:
    __slots__ = ('id', 'size', 'data', 'fill', 'alive', 'owner', 'kind', 'site', 'lib')

    def __init__(self, oid, size, kind, site, fill=None):
        self.id = oid
        self.size = size
        self.data = {}
        self.fill = fill
        self.alive = True
        self.owner = None
        self.kind = kind
        self.site = site
        self.lib = False

    def clone(self, owner):
        o = Obj.__new__(Obj)
        o.id = self.id
        o.size = self.size
        o.data = dict(self.data)
        o.fill = self.fill
        o.alive = self.alive
        o.owner = owner
        o.kind = self.kind
        o.site = self.site
        o.lib = self.lib
        return o


class Frame:
    __slots__ = ('fn', 'code', 'regs', 'pc', 'allocas', 'dest', 'on_ret', 'savedstack')

    def __init__(self, fn, regs, dest):
        self.fn = fn
        self.code = fn.code
        self.regs = regs
        self.pc = 0
        self.allocas = None
        self.dest = dest
        self.on_ret = None

    def clone(self):
        f = Frame.__new__(Frame)
        f.fn = self.fn
        f.code = self.code
        f.regs = list(self.regs)
        f.pc = self.pc
        f.allocas = list(self.allocas) if self.allocas else None
        f.dest = self.dest
        f.on_ret = self.on_ret
        return f


class Thread:
    __slots__ = ('tid', 'frames', 'status', 'pred', 'deadline', 'retval', 'errno_addr',
                 'vc', 'name', 'wake_reason')

    def __init__(self, tid):
        self.tid = tid
        self.frames = []
        self.status = 'run'       # run | blocked | done
        self.pred = None          # (fn, arg) when blocked
        self.deadline = None
        self.retval = 0
        self.errno_addr = 0
        self.vc = None
        self.name = None
        self.wake_reason = 0

    def clone(self):
        t = Thread.__new__(Thread)
        t.tid = self.tid
        t.frames = [f.clone() for f in self.frames]
        t.status = self.status
        t.pred = self.pred
        t.deadline = self.deadline
        t.retval = self.retval
        t.errno_addr = self.errno_addr
        t.vc = dict(self.vc) if self.vc is not None else None
        t.name = self.name
        t.wake_reason = self.wake_reason
        return t


_sid = [0]


def new_sid():
    _sid[0] += 1
    return _sid[0]


class State:
    def __init__(self):
        self.sid = new_sid()
        self.objs = {}
        self.next_obj = 16
        self.threads = []
        self.cur = 0
        self.pc = []
        self.model = None
        self.decisions = []
        self.pending = None
        self.symvals = []
        self.covers = set()
        self.trace = []
        self.steps = 0
        self.preempt = 0
        self.nsym = 0
        self.hb = None          # race-detector state (dict) or None
        self.sched_epoch = 0
        self.forced = None
        self.fpos = 0
        self.symbranches = 0
        self.oracles = 0
        self.nforks = 0
        self.sym_oracles = 0
        self.ikey = None
        self.idecs = []
        self.known = {}

    def clone(self):
        s = State.__new__(State)
        s.sid = new_sid()
        self.sid = new_sid()
        s.objs = dict(self.objs)
        s.next_obj = self.next_obj
        s.threads = [t.clone() for t in self.threads]
        s.cur = self.cur
        s.pc = list(self.pc)
        s.model = self.model
        s.decisions = list(self.decisions)
        s.pending = None
        s.symvals = list(self.symvals)
        s.covers = set(self.covers)
        s.trace = list(self.trace)
        s.steps = self.steps
        s.preempt = self.preempt
        s.nsym = self.nsym
        s.hb = self.hb.clone() if self.hb is not None else None
        s.sched_epoch = self.sched_epoch
        s.forced = self.forced
        s.fpos = self.fpos
        s.symbranches = self.symbranches
        s.oracles = self.oracles
        s.nforks = self.nforks
        s.sym_oracles = self.sym_oracles
        s.ikey = self.ikey
        s.idecs = list(self.idecs)
        s.known = dict(self.known)
        return s


# --------------------------------------------------------------------- z3 helpers

def bv(x, bits):
    if type(x) is int:
        return z3.BitVecVal(x, bits)
    if isinstance(x, BoolRef):
        return z3.If(x, z3.BitVecVal(1, bits), z3.BitVecVal(0, bits))
    return x


def as_bool(x):
    """i1 value -> z3 Bool"""
    if type(x) is int:
        return z3.BoolVal(bool(x & 1))
    if isinstance(x, BoolRef):
        return x
    return z3.Extract(0, 0, x) == 1


def sgn(x, bits):
    return x - (1 << bits) if x >> (bits - 1) else x


def simp(x):
    return z3.simplify(x)


def concrete_of(x):
    """z3 value -> python int if it is a numeral, else None"""
    if z3.is_bv_value(x):
        return x.as_long()
    if z3.is_true(x):
        return 1
    if z3.is_false(x):
        return 0
    return None


def norm(x):
    """simplify symbolic result; return int when it folds to a constant"""
    x = z3.simplify(x)
    c = concrete_of(x)
    return x if c is None else c


def fold(x):
    """constant-fold only: python int when x simplifies to a numeral, else x unchanged
    (z3.simplify rewrites sign extensions into bit-level concatenations, so the
    simplified form is not kept)"""
    c = concrete_of(z3.simplify(x))
    return x if c is None else c


class Stats:
    def __init__(self):
        self.paths = 0
        self.paths_assume = 0
        self.paths_viol = 0
        self.infeasible = 0
        self.q_branch = 0
        self.q_assert = 0
        self.t_solver = 0.0
        self.oracle_concrete = 0
        self.oracle_solver = 0
        self.forks = 0
        self.steps = 0
        self.nontrivial = 0
        self.fn_calls = {}
        self.max_query = 0.0
        self.bound_exceeded = 0
        self.model_hits = 0
        self.known_hits = 0
        self.resyncs = 0

    def merge(self, o):
        for k, v in o.__dict__.items():
            if k == 'fn_calls':
                for f, n in v.items():
                    self.fn_calls[f] = self.fn_calls.get(f, 0) + n
            elif k == 'max_query':
                self.max_query = max(self.max_query, v)
            else:
                setattr(self, k, getattr(self, k) + v)
