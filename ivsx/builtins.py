"""Executor built-ins: libc memory/string helpers and the sx_* intrinsics that
harnesses and environment models use.  Signature: bi(ex, fr, args, dest) ->
truthy iff the current frame changed."""
import z3
from .core import *


def boolword_cond(ex, c):
    """word used as a truth value -> z3 Bool, without going through (ite ... 1 0) != 0"""
    b = ex._as_boolword(c)
    if b is not None:
        return b
    return c != 0


def install(ex):
    B = ex.builtins

    def reg(name, override=False):
        def deco(f):
            f.override = override
            B[name] = f
            return f
        return deco

    def ret(fr, d, v):
        fr.regs[d] = v

    def conc(ex, v, bits=64):
        if type(v) is int:
            return v
        return ex.concretize(v, bits)

    # ------------------------------------------------------------ memory
    @reg('malloc')
    def _malloc(ex, fr, a, d):
        n = conc(ex, a[0])
        fr.regs[d] = ex.malloc(n, fr.fn.name)

    @reg('calloc')
    def _calloc(ex, fr, a, d):
        n = conc(ex, a[0]) * conc(ex, a[1])
        fr.regs[d] = ex.malloc(n, fr.fn.name, zero=True)

    @reg('realloc')
    def _realloc(ex, fr, a, d):
        p = a[0]
        n = conc(ex, a[1])
        q = ex.malloc(n, fr.fn.name)
        if p != 0:
            o = ex.st.objs.get(p >> 32)
            if o is None or not o.alive:
                ex.violation('mem', 'bad-free', 'realloc of invalid pointer')
            ex.memcpy(q, p, min(n, o.size))
            ex.free(p)
        fr.regs[d] = q

    @reg('free')
    def _free(ex, fr, a, d):
        ex.free(a[0])

    @reg('memcpy')
    def _memcpy(ex, fr, a, d):
        ex.memcpy(a[0], a[1], a[2])
        fr.regs[d] = a[0]

    B['memmove'] = _memcpy

    @reg('memset')
    def _memset(ex, fr, a, d):
        ex.memset(a[0], a[1], a[2])
        fr.regs[d] = a[0]

    @reg('strlen')
    def _strlen(ex, fr, a, d):
        fr.regs[d] = len(ex.cstr(a[0]))

    @reg('strcmp')
    def _strcmp(ex, fr, a, d):
        x = ex.cstr(a[0])
        y = ex.cstr(a[1])
        fr.regs[d] = 0 if x == y else (1 if x > y else 0xffffffff)

    @reg('strdup')
    def _strdup(ex, fr, a, d):
        s = ex.cstr(a[0]).encode('latin1') + b'\0'
        p = ex.malloc(len(s), fr.fn.name)
        ex.write_bytes(p, s)
        fr.regs[d] = p

    @reg('strerror')
    def _strerror(ex, fr, a, d):
        fr.regs[d] = ex.global_addr.get('sx_empty_string', 0)

    @reg('memcmp')
    def _memcmp(ex, fr, a, d):
        n = conc(ex, a[2])
        r = 0
        for i in range(n):
            x = ex.load(a[0] + i, 1)
            y = ex.load(a[1] + i, 1)
            if type(x) is not int or type(y) is not int:
                raise MachineryError('memcmp on symbolic bytes')
            if x != y:
                r = 1 if x > y else 0xffffffff
                break
        fr.regs[d] = r

    # ------------------------------------------------------------ no-ops / formatting
    def nop(ex, fr, a, d):
        fr.regs[d] = 0

    for n_ in ('llvm.va_start', 'llvm.va_end', 'vsnprintf', 'syslog', 'fprintf', 'perror', 'printf',
               'puts', 'fflush', 'llvm.stackrestore', 'llvm.lifetime.start.p0i8',
               'llvm.lifetime.end.p0i8', 'vfprintf', 'putchar', 'fputs', 'fwrite', 'openlog',
               'llvm.dbg.declare', 'llvm.dbg.value', 'llvm.dbg.label', 'llvm.prefetch.p0i8',
               'setrlimit', 'sched_yield'):
        B[n_] = nop

    @reg('llvm.stacksave')
    def _ss(ex, fr, a, d):
        fr.regs[d] = 0

    @reg('snprintf')
    def _snprintf(ex, fr, a, d):
        # only used for thread names; write a fixed short string
        n = conc(ex, a[1])
        s = b'sx-name\0'[:max(n, 1)]
        if n > 0:
            ex.write_bytes(a[0], s[:n - 1] + b'\0' if len(s) >= n else s)
        fr.regs[d] = 7

    @reg('__isoc99_sscanf')
    def _sscanf(ex, fr, a, d):
        # format "%63s%n" only (the poll-method exclusion list parser)
        fmt = ex.cstr(a[1])
        if fmt != '%63s%n':
            raise MachineryError('sscanf format %r not modelled' % fmt)
        s = ex.cstr(a[0])
        i = 0
        while i < len(s) and s[i] in ' \t\n':
            i += 1
        j = i
        while j < len(s) and s[j] not in ' \t\n' and j - i < 63:
            j += 1
        if j == i:
            fr.regs[d] = 0xffffffff   # EOF
            return
        ex.write_bytes(a[2], s[i:j].encode('latin1') + b'\0')
        ex.store(a[3], 4, j)
        fr.regs[d] = 1

    @reg('abort')
    def _abort(ex, fr, a, d):
        ex.violation('abort', 'library-abort', 'abort() called (iv_fatal or assertion in library)')

    @reg('exit')
    def _exit(ex, fr, a, d):
        ga = ex.global_addr.get('p_in_child')
        if ga is not None and ex.load(ga, 4) != 0:
            raise PathEnd('ok')     # a forked child copy of the world ends here
        ex.violation('abort', 'exit', 'exit(%s) called' % (a[0],))

    B['_exit'] = _exit

    @reg('__assert_fail')
    def _assert_fail(ex, fr, a, d):
        ex.violation('abort', 'c-assert', 'assert failed: ' + ex.cstr(a[0]))

    @reg('__errno_location')
    def _errno(ex, fr, a, d):
        th = ex.th
        if th.errno_addr == 0:
            th.errno_addr = ex.malloc(4, 'errno', zero=True)
            ex.st.objs[th.errno_addr >> 32].kind = 'global'
        fr.regs[d] = th.errno_addr

    # variadic externs are routed to fixed-arity C models
    def route(name, target, nargs):
        def f(ex, fr, a, d):
            fn = ex.fns.get(target)
            if fn is None or fn.code is None:
                raise MachineryError('model %s missing for %s' % (target, name))
            a = list(a[:nargs]) + [0] * (nargs - len(a))
            return ex.push_call(fn, a, d)
        B[name] = f

    route('syscall', 'sxm_syscall', 6)
    route('fcntl', 'sxm_fcntl', 3)
    route('ioctl', 'sxm_ioctl', 3)
    route('open', 'sxm_open', 3)

    # ------------------------------------------------------------ sx intrinsics
    @reg('sx_long')
    def _sx_long(ex, fr, a, d):
        st = ex.st
        name = ex.cstr(a[0])
        lo = sgn(conc(ex, a[1]), 64)
        hi = sgn(conc(ex, a[2]), 64)
        idx = st.nsym
        st.nsym += 1
        full = '%s#%d' % (name, idx)
        if lo > -(1 << 63) or hi < (1 << 63) - 1:
            full += '@%d:%d' % (lo, hi)
        if ex.replay_values is not None:
            if idx >= len(ex.replay_values):
                v = lo & M64
            else:
                rn, v = ex.replay_values[idx]
                if rn != full:
                    raise MachineryError('replay diverged: symbolic value %s vs recorded %s' % (full, rn))
            st.symvals.append((full, None))
            fr.regs[d] = v & M64
            return
        if lo == hi:
            fr.regs[d] = lo & M64
            st.symvals.append((full, z3.BitVecVal(lo & M64, 64)))
            return
        x = z3.BitVec(full, 64)
        st.symvals.append((full, x))
        if lo > -(1 << 63):
            ex.add_constraint(x >= z3.BitVecVal(lo & M64, 64))
        if hi < (1 << 63) - 1:
            ex.add_constraint(x <= z3.BitVecVal(hi & M64, 64))
        fr.regs[d] = x

    @reg('sx_choose')
    def _sx_choose(ex, fr, a, d):
        n = conc(ex, a[0], 32)
        fr.regs[d] = ex.choose(n)

    @reg('sx_assume')
    def _sx_assume(ex, fr, a, d):
        c = a[0]
        if type(c) is int:
            if c == 0:
                raise PathEnd('assume')
            return
        if c is UNDEF:
            ex.violation('mem', 'uninit-use', 'assume on uninitialised value')
        cond = c if isinstance(c, BoolRef) else boolword_cond(ex, c)
        cs = z3.simplify(cond)
        if z3.is_true(cs):
            return
        if z3.is_false(cs):
            raise PathEnd('assume')
        kn = ex.st.known.get(cs.get_id())
        if kn is not None:
            if kn[0]:
                return
            raise PathEnd('assume')
        m = ex.st.model
        if m is not None and z3.is_true(m.eval(cond, model_completion=True)):
            ex.st.pc.append(cond)
            ex.learn(cs)
            return
        sat, m = ex.query(cond, 'branch')
        if not sat:
            raise PathEnd('assume')
        ex.st.pc.append(cond)
        ex.learn(cs)
        ex.st.model = m

    @reg('sx_assert')
    def _sx_assert(ex, fr, a, d):
        c = a[0]
        st = ex.st
        st.oracles += 1
        if type(c) is int:
            ex.stats.oracle_concrete += 1
            if c == 0:
                oid = ex.cstr(a[1])
                ex.violation('assert', oid, 'oracle %s violated' % oid)
            return
        if c is UNDEF:
            ex.violation('mem', 'uninit-use', 'oracle on uninitialised value: ' + ex.cstr(a[1]))
        st.symbranches += 0
        st.sym_oracles += 1
        cond = c if isinstance(c, BoolRef) else boolword_cond(ex, c)
        conj = cond.children() if z3.is_and(cond) else [cond]
        first = True
        for cj in conj:
            cs = z3.simplify(cj)
            if z3.is_true(cs):
                continue
            if first:
                ex.stats.oracle_solver += 1
                first = False
                if ex.replay_values is not None:
                    raise MachineryError('symbolic oracle during concrete replay')
            kn = st.known.get(cs.get_id())
            if kn is not None and kn[0]:
                ex.stats.known_hits += 1
                continue
            sat, m = ex.query(z3.Not(cj), 'assert')
            if sat:
                oid = ex.cstr(a[1])
                ex.violation('assert', oid, 'oracle %s violated' % oid, model=m)
            ex.learn(cs)
        if first:
            ex.stats.oracle_concrete += 1
        # holds on every value of this path: nothing to add

    @reg('sx_fail')
    def _sx_fail(ex, fr, a, d):
        oid = ex.cstr(a[0])
        ex.st.oracles += 1
        ex.violation('assert', oid, 'oracle %s violated' % oid)

    @reg('sx_cover')
    def _sx_cover(ex, fr, a, d):
        ex.st.covers.add(ex.cstr(a[0]))

    @reg('sx_end')
    def _sx_end(ex, fr, a, d):
        raise PathEnd('ok')

    @reg('sx_note')
    def _sx_note(ex, fr, a, d):
        if ex.trace_on:
            v = a[1]
            if type(v) is int:
                v = sgn(v, 64)
            else:
                v = 'sym'
            ex.st.trace.append('%s=%s' % (ex.cstr(a[0]), v))

    @reg('sx_concrete')
    def _sx_concrete(ex, fr, a, d):
        fr.regs[d] = conc(ex, a[0])

    @reg('sx_is_symbolic')
    def _sx_is_symbolic(ex, fr, a, d):
        fr.regs[d] = 0 if type(a[0]) is int else 1

    @reg('sx_is_replay')
    def _sx_is_replay(ex, fr, a, d):
        fr.regs[d] = 1 if ex.replay_values is not None else 0

    @reg('sx_is_live')
    def _sx_is_live(ex, fr, a, d):
        p = conc(ex, a[0])
        o = ex.st.objs.get(p >> 32)
        fr.regs[d] = 1 if (o is not None and o.alive) else 0

    @reg('sx_lib_heap_count')
    def _sx_lib_heap(ex, fr, a, d):
        n = 0
        for o in ex.st.objs.values():
            if o.kind == 'heap' and o.alive and o.lib:
                n += 1
        fr.regs[d] = n

    @reg('sx_leak_check')
    def _sx_leak_check(ex, fr, a, d):
        """violation if library code still owns more than a[0] heap blocks"""
        allowed = conc(ex, a[0])
        live = [o for o in ex.st.objs.values() if o.kind == 'heap' and o.alive and o.lib]
        ex.st.oracles += 1
        ex.stats.oracle_concrete += 1
        if len(live) > allowed:
            sites = sorted(set(str(o.site) for o in live))
            ex.violation('leak', 'heap-leak', 'library heap blocks still allocated: %d (allowed %d), sites %s'
                         % (len(live), allowed, sites))

    @reg('sx_leak_check_unreachable')
    def _sx_leak_unreach(ex, fr, a, d):
        """violation if a live heap block allocated by library code can no longer be reached from any global,
        stack slot or register of any thread (conservative scan: every concrete 64-bit cell or register whose
        upper half names a live object counts as a reference, interior pointers included)"""
        st = ex.st
        objs = st.objs
        marked = set()
        work = []

        def ref(v):
            if isinstance(v, int) and v > 0xffffffff:
                oid = v >> 32
                if oid not in marked:
                    o = objs.get(oid)
                    if o is not None and o.alive:
                        marked.add(oid)
                        work.append(o)

        for o in objs.values():
            if o.alive and o.kind != 'heap' and o.id not in marked:
                marked.add(o.id)
                work.append(o)
        for th in st.threads:
            if th is None:
                continue
            for f in th.frames:
                for v in f.regs:
                    ref(v)
        while work:
            o = work.pop()
            for cell in o.data.values():
                v = cell[1] if isinstance(cell, tuple) else cell
                ref(v)
        lost = [o for o in objs.values() if o.kind == 'heap' and o.alive and o.lib and o.id not in marked]
        ex.st.oracles += 1
        ex.stats.oracle_concrete += 1
        if lost:
            sites = sorted(set(str(o.site) for o in lost))
            ex.violation('leak', 'heap-leak', 'library heap blocks no longer reachable from anywhere: %d, allocated at %s'
                         % (len(lost), sites))

    @reg('sx_opt')
    def _sx_opt(ex, fr, a, d):
        """harness parameter from the command line: sx_opt("name", default)"""
        name = ex.cstr(a[0])
        v = ex.opts.get('params', {}).get(name)
        fr.regs[d] = (int(v) & M64) if v is not None else a[1]

    @reg('sx_set_quiescent')
    def _sx_set_q(ex, fr, a, d):
        ex.st_quiescent = a[0]

    from . import sched
    sched.install(ex, reg)
