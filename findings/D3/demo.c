#define _GNU_SOURCE
#include <errno.h>
#include <pthread.h>
#include <stdio.h>
#include <stdlib.h>
#include <unistd.h>
#include <semaphore.h>
#include <sys/timerfd.h>
#include <iv.h>

static int tfd_calls;
int __real_timerfd_create(int clk, int flags);
int __wrap_timerfd_create(int clk, int flags)
{
	if (__sync_add_and_fetch(&tfd_calls, 1) >= 2) {
		errno = ENOSYS;		/* the facility disappears in mid-run */
		return -1;
	}
	return __real_timerfd_create(clk, flags);
}

struct cl {
	struct iv_fd fd;
	struct iv_timer tm[3];
	int p[2];
	int calls, fired, id;
};
static struct cl C[2];
static sem_t a_asleep;

static void fdh(void *c)
{
	struct cl *me = c;
	char b;
	read(me->p[0], &b, 1);
	me->calls++;
	if (me->calls == 6 && me->id == 0)
		sem_post(&a_asleep);		/* A goes to sleep on its timer descriptor now */
	if (me->calls == 6 && me->id == 1)
		write(C[0].p[1], "x", 1);	/* one more wake-up for A, after the switch */
}

static void tmh(void *c)
{
	struct cl *me = c;
	me->fired++;
	fprintf(stderr, "loop %d: timer %d fired (method now %s)\n", me->id, me->fired, iv_poll_method_name());
	if (me->fired == 3)
		iv_fd_unregister(&me->fd);
}

static void client(struct cl *me)
{
	int i;
	iv_init();
	pipe(me->p);
	write(me->p[1], "xxxxxx", 6);
	IV_FD_INIT(&me->fd);
	me->fd.fd = me->p[0];
	me->fd.cookie = me;
	me->fd.handler_in = fdh;
	iv_fd_register(&me->fd);
	iv_validate_now();
	for (i = 0; i < 3; i++) {
		IV_TIMER_INIT(&me->tm[i]);
		me->tm[i].cookie = me;
		me->tm[i].handler = tmh;
		me->tm[i].expires = iv_now;
		me->tm[i].expires.tv_sec += 1 + i;
		iv_timer_register(&me->tm[i]);
	}
	iv_main();
	iv_deinit();
	fprintf(stderr, "loop %d done: fd calls %d timers %d\n", me->id, me->calls, me->fired);
}

static void *thr(void *arg)
{
	sem_wait(&a_asleep);
	usleep(100000);
	client(arg);
	return NULL;
}

int main(void)
{
	pthread_t t;
	alarm(10);
	sem_init(&a_asleep, 0, 0);
	iv_init(); iv_deinit();
	C[0].id = 0; C[1].id = 1;
	pthread_create(&t, NULL, thr, &C[1]);
	client(&C[0]);
	pthread_join(t, NULL);
	if (C[0].fired == 3 && C[1].fired == 3) { printf("PASS\n"); return 0; }
	printf("FAIL\n");
	return 1;
}
