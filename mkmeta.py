#!/usr/bin/env python3
import json, sys
sid, prop, needs, summary = sys.argv[1:5]
also = sys.argv[5].split(',') if len(sys.argv) > 5 and sys.argv[5] else []
json.dump({"seed": sid, "property": prop, "also_check": also, "summary": summary, "needs_to_manifest": needs,
           "origin": "written by an independent sub-agent given only the property text and a scratch worktree",
           "confirmed": "confirm_seed.sh: run.sh exits 0 on the unchanged tree and non-zero with patch.diff applied; make check passes 11/11 with the patch",
           "checked_with": "seedtest.py (applies patch.diff, runs ./check <property>, undoes it)"},
          open('/verif/seeded/%s/meta.json' % sid, 'w'), indent=1)
